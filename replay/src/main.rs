//! Replays builtin calls on the REAL quiver-core (linked by path): reads a JSON list of calls on
//! stdin, runs each through BuiltinRegistry::get_implementation(name)(pid, &arg, &mut executor)
//! under catch_unwind on a fresh executor, and prints one JSON result per call.
use quiver_core::binary::BinaryData;
use quiver_core::builtins::{BuiltinRegistry, BuiltinResult, bigint_from_str, core_modules};
use quiver_core::effects::Effect;
use quiver_core::executor::Executor;
use quiver_core::value::{Binary, ResourceId, Value};
use serde::{Deserialize, Serialize};
use serde_json::{Value as J, json};
use std::io::Read;
use std::panic::{AssertUnwindSafe, catch_unwind};
use std::rc::Rc;

#[derive(Debug, Clone, Serialize, Deserialize)]
enum NoEffect {}
impl Effect for NoEffect {
    fn resource_id(&self) -> Option<ResourceId> {
        None
    }
}

fn unhex(s: &str) -> Vec<u8> {
    (0..s.len() / 2).map(|i| u8::from_str_radix(&s[2 * i..2 * i + 2], 16).unwrap()).collect()
}
fn hex(b: &[u8]) -> String {
    b.iter().map(|x| format!("{:02x}", x)).collect()
}

/// Build a binary with the given content in the requested rope shape.
fn rope(bytes: &[u8], shape: &str) -> BinaryData {
    match shape {
        "concat" if bytes.len() >= 2 => {
            let k = bytes.len() / 2;
            BinaryData::concat(Rc::new(BinaryData::new(bytes[..k].to_vec())), Rc::new(BinaryData::new(bytes[k..].to_vec())))
        }
        "slice" => {
            let mut padded = vec![0xAAu8, 0xBB];
            padded.extend_from_slice(bytes);
            padded.extend_from_slice(&[0xCC]);
            BinaryData::Slice { parent: Rc::new(BinaryData::new(padded)), offset: 2, length: bytes.len() }
        }
        // a strict prefix / suffix window of a longer buffer, and a window of a window
        "prefix" => {
            let mut padded = bytes.to_vec();
            padded.extend_from_slice(&[0xDD, 0xEE]);
            BinaryData::Slice { parent: Rc::new(BinaryData::new(padded)), offset: 0, length: bytes.len() }
        }
        "suffix" => {
            let mut padded = vec![0x11u8, 0x22, 0x33];
            padded.extend_from_slice(bytes);
            BinaryData::Slice { parent: Rc::new(BinaryData::new(padded)), offset: 3, length: bytes.len() }
        }
        "nested" => {
            let mut padded = vec![0x5Au8];
            padded.extend_from_slice(bytes);
            padded.extend_from_slice(&[0xA5, 0xA5]);
            let outer = BinaryData::Slice { parent: Rc::new(BinaryData::new(padded)), offset: 1, length: bytes.len() + 1 };
            BinaryData::Slice { parent: Rc::new(outer), offset: 0, length: bytes.len() }
        }
        // "drop a header, then drop the next header": the inner view reaches the end of the buffer and the
        // outer one starts past its beginning
        "nested_tail" => {
            let mut padded = vec![0x5Au8, 0x6B];
            padded.extend_from_slice(bytes);
            let inner = BinaryData::Slice { parent: Rc::new(BinaryData::new(padded)), offset: 1, length: bytes.len() + 1 };
            BinaryData::Slice { parent: Rc::new(inner), offset: 1, length: bytes.len() }
        }
        // a view into the middle of a concatenation, cut again
        "nested_concat" => {
            let k = bytes.len() / 2;
            let mut left = vec![0x77u8];
            left.extend_from_slice(&bytes[..k]);
            let mut right = bytes[k..].to_vec();
            right.push(0x88);
            let cat = BinaryData::concat(Rc::new(BinaryData::new(left)), Rc::new(BinaryData::new(right)));
            let inner = BinaryData::Slice { parent: Rc::new(cat), offset: 1, length: bytes.len() + 1 };
            BinaryData::Slice { parent: Rc::new(inner), offset: 0, length: bytes.len() }
        }
        "zero" if bytes.iter().all(|b| *b == 0) => BinaryData::zeroed(bytes.len()),
        "repeat" => {
            // smallest period of the content
            let n = bytes.len();
            let mut p = n.max(1);
            for cand in 1..=n {
                if n % cand == 0 && (0..n).all(|i| bytes[i] == bytes[i % cand]) {
                    p = cand;
                    break;
                }
            }
            if n >= 2 && p < n {
                BinaryData::Tiled { unit: Rc::new(BinaryData::new(bytes[..p].to_vec())), count: n / p }
            } else {
                BinaryData::new(bytes.to_vec())
            }
        }
        // a tile that does NOT start at offset 0 of the flattened output: one leading byte, then the rest tiled (when the
        // rest is periodic) - the right operand of a concat is where offset bugs in flattening hide
        "head_tiled" if bytes.len() >= 3 => {
            let rest = &bytes[1..];
            let n = rest.len();
            let mut p = n;
            for cand in 1..=n {
                if n % cand == 0 && (0..n).all(|i| rest[i] == rest[i % cand]) {
                    p = cand;
                    break;
                }
            }
            let right = if p < n { BinaryData::Tiled { unit: Rc::new(BinaryData::new(rest[..p].to_vec())), count: n / p } } else { BinaryData::new(rest.to_vec()) };
            BinaryData::concat(Rc::new(BinaryData::new(bytes[..1].to_vec())), Rc::new(right))
        }
        "concat3" if bytes.len() >= 3 => {
            let k = bytes.len() / 3;
            let l = Rc::new(BinaryData::concat(Rc::new(BinaryData::new(bytes[..k].to_vec())), Rc::new(BinaryData::new(bytes[k..2 * k].to_vec()))));
            BinaryData::concat(l, Rc::new(BinaryData::new(bytes[2 * k..].to_vec())))
        }
        _ => BinaryData::new(bytes.to_vec()),
    }
}

fn build(ex: &mut Executor<NoEffect>, j: &J) -> Value {
    if let Some(s) = j.get("int") {
        return Value::Integer(bigint_from_str(s.as_str().unwrap()).unwrap());
    }
    if let Some(b) = j.get("bin") {
        let bytes = unhex(b.get("hex").unwrap().as_str().unwrap());
        let shape = b.get("shape").and_then(|s| s.as_str()).unwrap_or("literal");
        let data = rope(&bytes, shape);
        let bin = ex.allocate_binary_data(data).unwrap();
        return Value::Binary(bin);
    }
    if let Some(t) = j.get("tuple") {
        let fields: Vec<Value> = t.as_array().unwrap().iter().map(|x| build(ex, x)).collect();
        return Value::tuple(2, fields);
    }
    if j.get("nil").is_some() {
        return Value::nil();
    }
    if let Some(c) = j.get("fn") {
        let caps: Vec<Value> = c.as_array().unwrap().iter().map(|x| build(ex, x)).collect();
        return Value::Function(0, std::sync::Arc::new(caps));
    }
    if let Some(r) = j.get("ref") {
        return Value::Reference(r.as_u64().unwrap());
    }
    panic!("bad value spec {j}");
}

fn render(ex: &Executor<NoEffect>, v: &Value) -> J {
    match v {
        Value::Integer(n) => json!({"int": n.to_string()}),
        Value::Binary(b) => match b {
            Binary::Heap(i) => match ex.get_heap_binary(*i) {
                Some(d) => json!({"bin": hex(&d.to_vec())}),
                None => json!({"dangling": i}),
            },
            Binary::Constant(i) => json!({"const": i}),
        },
        Value::Tuple(id, fs) if fs.is_empty() => json!({"nil": *id == 0, "tuple_id": id}),
        Value::Tuple(_, fs) => json!({"tuple": fs.iter().map(|x| render(ex, x)).collect::<Vec<_>>()}),
        Value::Function(i, cs) => json!({"fn": cs.iter().map(|x| render(ex, x)).collect::<Vec<_>>(), "index": i}),
        other => json!({"other": format!("{:?}", other)}),
    }
}

fn main() {
    let mut input = String::new();
    std::io::stdin().read_to_string(&mut input).unwrap();
    let calls: Vec<J> = serde_json::from_str(&input).unwrap();
    std::panic::set_hook(Box::new(|_| {}));
    let registry: BuiltinRegistry<NoEffect> = BuiltinRegistry::with_modules(&core_modules());
    let mut out = Vec::new();
    let stream = std::env::args().any(|a| a == "--stream");
    for c in calls {
        let name = c.get("builtin").unwrap().as_str().unwrap().to_string();
        let mut ex: Executor<NoEffect> = Executor::new(registry.clone(), false, 0);
        let arg = build(&mut ex, c.get("arg").unwrap());
        if name == "@transfer" {
            // cross-heap transfer on the real code: build the value in heap A, extract, inject into a populated heap B,
            // and render both ends (the driver compares them)
            let spec = c.get("arg").unwrap().clone();
            let reg2 = registry.clone();
            let r = catch_unwind(AssertUnwindSafe(move || {
                let mut a: Executor<NoEffect> = Executor::new(reg2.clone(), false, 0);
                for k in 0..3u8 {
                    a.allocate_binary(vec![0xA0 + k; 2]).unwrap();
                }
                let v = build(&mut a, &spec);
                let sent = render(&a, &v);
                let (wire, data) = match a.extract_heap_data(&v) {
                    Ok(x) => x,
                    Err(e) => return json!({"err": format!("extract: {:?}", e)}),
                };
                let mut b: Executor<NoEffect> = Executor::new(reg2, false, 1);
                for k in 0..5u8 {
                    b.allocate_binary(vec![0xB0 + k; 3]).unwrap();
                }
                let before: Vec<Vec<u8>> = (0..5).map(|i| b.get_heap_binary(i).unwrap().to_vec()).collect();
                let landed = match b.inject_heap_data(wire, &data) {
                    Ok(x) => x,
                    Err(e) => return json!({"err": format!("inject: {:?}", e)}),
                };
                let got = render(&b, &landed);
                let after: Vec<Vec<u8>> = (0..5).map(|i| b.get_heap_binary(i).unwrap().to_vec()).collect();
                json!({"ok": {"same": sent == got && before == after, "sent": sent, "got": got, "receiver_untouched": before == after, "copies": data.len()}})
            }));
            let res = match r {
                Ok(j) => j,
                Err(p) => {
                    let msg = p.downcast_ref::<String>().cloned().or_else(|| p.downcast_ref::<&str>().map(|s| s.to_string())).unwrap_or_default();
                    json!({"panic": msg})
                }
            };
            if stream {
                use std::io::Write;
                let mut so = std::io::stdout();
                writeln!(so, "{}", serde_json::to_string(&res).unwrap()).unwrap();
                so.flush().unwrap();
            } else {
                out.push(res);
            }
            continue;
        }
        let f = registry.get_implementation(&name);
        let res = match f {
            None => json!({"missing": name}),
            Some(f) => {
                let r = catch_unwind(AssertUnwindSafe(|| f(0, &arg, &mut ex)));
                match r {
                    Err(p) => {
                        let msg = p.downcast_ref::<String>().cloned().or_else(|| p.downcast_ref::<&str>().map(|s| s.to_string())).unwrap_or_default();
                        json!({"panic": msg})
                    }
                    Ok(Err(e)) => json!({"err": format!("{:?}", e)}),
                    Ok(Ok(BuiltinResult::Value(v))) => json!({"ok": render(&ex, &v)}),
                    Ok(Ok(BuiltinResult::Action(_))) => json!({"action": true}),
                }
            }
        };
        if stream {
            // one result per line, flushed at once: the driver sees which call hangs or takes the process down
            use std::io::Write;
            let mut so = std::io::stdout();
            writeln!(so, "{}", serde_json::to_string(&res).unwrap()).unwrap();
            so.flush().unwrap();
        } else {
            out.push(res);
        }
    }
    if !stream {
        println!("{}", serde_json::to_string(&out).unwrap());
    }
}
