#!/bin/sh
# Offline setup: nothing to fetch or build ahead of time. Verify the tools are there and warm Verus up.
set -e
cd "$(dirname "$0")"
command -v verus >/dev/null || { echo "verus not on PATH"; exit 1; }
command -v python3 >/dev/null || { echo "python3 missing"; exit 1; }
mkdir -p build/gen build/cache evidence replays
python3 - <<'PY'
import sys
sys.path.insert(0, '.')
from vf import extract
for u in ('rope',):
    extract.generate(u)
print('setup ok')
PY
