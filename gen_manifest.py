#!/usr/bin/env python3
"""Writes MANIFEST.json from one table (kept in this file) so it is always schema-valid."""
import json, os, sys
sys.path.insert(0, os.path.dirname(os.path.abspath(__file__)))
from vf import props, extract

NA = {
 "C01": "Type soundness quantifies over every accepted program; it is a meta-theorem about compiler.rs + typing.rs + narrowing.rs + the VM, not a postcondition of any function; whole-repository proof is not tractable (DESIGN.md §5).",
 "C02": "Needs an independent reference evaluator for docs/spec.md (a model, which this technique family excludes) and an inductive argument over the whole compiler.",
 "C03": "Schedule/worker-count independence: the installed Verus workflow has no thread or channel model and Kani has no threads; not a per-function contract.",
 "C04": "Exactly-once/FIFO/no-lost-wake-up is a whole-history protocol property across Executor/Worker/Environment. Function-level pieces are proved under C05/C06 (a select that finds nothing ready parks the process; notify_message appends the injected message at the back of the mailbox and wakes the receiver exactly once; handle_send hands the value over in an Action), but delivery order and wake-ups are decided by worker.rs / environment.rs event loops over mpsc channels, for which this technique has no model.",
 "C07": "Well-formedness of emitted bytecode is a property of the 4.6 kLoC emitter; only the jump offset encode/decode pair is in reach - too thin to claim.",
 "C08": "Runtime type tests are table lookups; their correctness reduces to is_compatible (C09) and closure/HashMap-based table builders outside the dialect.",
 "C09": "check_type_relation threads &mut HashSet/&mut Vec through iter().all/any closures and let-chains (outside Verus); its specification needs a value-enumeration oracle (a model); CBMC cannot carry String-keyed type tables.",
 "C10": "Result equality of whole programs across tree-shake/serde/merge/import; the remappers are iterator/closure/HashMap code outside the dialect.",
 "C11": "History-dependent equivalence across Repl, Worker, Environment and Compiler; not expressible as function contracts.",
 "C14": "Environment holds Box<dyn EffectBackend<E = E>> (rejected by Verus); ownership is a property of event orderings and the documented leak is a liveness fact.",
 "C17": "Formatter fixpoint over all parseable texts (1.8 kLoC pretty-printer); no function-level decomposition within reach.",
 "C18": "Parser totality: nom combinators and string slicing are outside Verus; symbolic text is intractable for CBMC.",
 "C19": "The HAMT is written in Quiver (std/dict.qv); no deductive verifier for Quiver exists here. Its Rust builtin substrate is covered under C12.",
 "C20": "The numeric tower is written in Quiver (std/num.qv); no deductive verifier for Quiver exists here. The integer builtins it leans on are covered under C12.",
}
LEVEL = {
 "C05": ("proof", "One entry of the Select instruction, function by function on the real executor code (handle_select, initialize_select, process_select_sources, handle_select_receive, handle_receive_result, scan_mailbox_for_message, call_receive_function, complete_select, the timeout / awaited-process / start-time / continuation helpers, check_expired_timeouts), for all states: first entry installs the popped sources in written order with one zero cursor per receive source, asks for the awaited processes first and starts the timeouts' clock only once they have answered; on every later entry the select is decided at the first source in written order that is ready - no timeout written before it has elapsed (measured from the fixed start time, clamped to [0, i64::MAX] ms), no awaited process written before it has a recorded result, no receive source written before it has a message its type admits from its cursor on; a timeout yields nil, a process its recorded result, a body-less receiver the earliest admissible message, a filtering receiver has its body started on that message and on re-entry any non-nil verdict yields the message itself (never the verdict) while nil moves that source's cursor past it; the taken message leaves the mailbox and all others keep their order; nothing ready parks the process with the mailbox untouched, and exactly the parked processes one of whose timeouts has run out are woken at the start of the next step; and on every outcome the heap counts move exactly as much as what the process roots. Deductive proof is the right level because the failures are at single interleavings of arrivals with re-entries (one such leak, D9, was found at a precondition and repaired). One turn of one receive source preserves the cursor invariant (nothing before its cursor is a message it takes) and, under it, yields the earliest message of the whole mailbox the source takes (A-filter: a filter's verdict is a function of source and message). Not decided: the composition of that invariant over the source loop and across entries and arrivals, the filter body's own execution (handle_call is assumed, A-call), which concrete types a receiver admits (A-compat), error propagation from a failed awaited process across workers (worker.rs; the executor's half is proved under C15), next_timeout_ms and the cross-worker await answers (environment.rs).", "DESIGN.md §4 C05"),
 "C12": ("proof", "Every pure builtin except integer_sin/cos (f64) - 15 integer, 20 binary, 11 vector builtins - and the binary rope they are built on (incl. find_byte and the byte iterator) is proved total (no panic for any argument) and equal to a mathematical reference model stated over the abstract byte view: unbounded integers, flat byte sequences, big-endian numbers for the bit-field builtins, lane-wise arithmetic for the vector kernels, FNV-1a as a fold; unbounded in input size and rope shape. One branch of binary_shift is excluded by a documented verifier limit (function reported as partial, not counted). Deductive proof is the right level because the defects live at single representation-boundary inputs that sampling does not reach (six were found and repaired).", "DESIGN.md §4 C12"),
 "C15": ("proof", "Second sentence of the property (workers never panic) and the executor's half of the first: Verus's implicit safety obligations (overflow, bounds, unwrap, division by zero, shift, reachable panic!/unreachable!/debug_assert!) are discharged for every function under contract - all builtins, the rope, the heap choke points, 18 of 19 hot instruction handlers, the cold-path handlers, the select machinery, Executor::step's own glue, cross-heap transfer - for all arguments and all states satisfying the stated well-formedness; for the VM units every accounting obligation counts too, because a count that drifts is a debug-build worker panic. Of the first sentence the executor's half is decided at function level (Executor::step: an instruction's error becomes the process's result and clears its frames, every process of that executor's table awaiting it gets the same error and no frames, a failed process executes nothing any more); across workers, Worker::query_and_await registers every target that has not finished with a value (a failed one too) with the awaiter on its list and Worker::notify_result makes an arriving failure the awaiter's own result; that the other processes run to their normal results, the rest of worker.rs / environment.rs and late awaiters are not decided. handle_call (assumed for the one branch a select filter takes) and the two instruction dispatchers (assumed with what the handlers ensure) are outside the dialect.", "DESIGN.md §4 C15"),
 "C06": ("proof", "Function-level heap accounting: allocator representation invariant, retain/release exact against a ghost occurrence count, choke points, 18 hot handlers, the cold-path functions (incl. the REPL's replace_locals / release_orphan_locals) and the 7 functions of the select machinery balance counts against what they store (stack, locals, select state, mailbox); no premature free, no live slot handed out, content preserved by materialize; cross-heap transfer proved end to end (extract_heap_data, inject_heap_data, spawn_process and the transfer theorem: what is sent reads back the same bytes, in slots not live before, counted exactly as rooted, one allocation per incoming binary). Executor::step reclaims only at the start of a step (whatever slot is free afterwards and was not before had been queued, uncounted, before the step began) and keeps the running process's roots live and counted across frame teardown. The global equation over all roots of all processes and all schedules, handle_call, the two instruction dispatchers (assumed) and the worker-side glue are not decided.", "DESIGN.md §4 C06"),
 "C13": ("proof", "The VM's comparator only: Executor::values_equal (what pinned matches, literal matches and repeated binders execute through the Equal instruction) returns exactly the property's structural equality - equal integers, byte-equal binaries whatever their storage (constant table, heap rope of any shape), same canonical tuple shape and pairwise-equal fields, same definition and pairwise-equal captures, same process, same ref, different kinds differ - for all values of any depth, and that relation is proved reflexive (on valid values), symmetric and transitive; handle_equal pushes the first value exactly when all compared values are structurally equal to it, nil otherwise, and keeps the heap accounting balanced. Not decided: that the compiler / program updates give equal shapes equal canonical ids on every path (assumption A-canon; seeded change R4b lives there), uniqueness of minted refs across workers, and resource handles (the property is silent about them).", "DESIGN.md §4 C13"),
 "C16": ("proof", "VM mechanism of tail calls: executing TailCall never adds a frame, resets the frame's locals to base (+captures), changes the operand stack by exactly 0/-1 and releases what it drops; release queues what reaches count 0 and process_pending_free empties the queue and frees every queued slot still at count 0, and Executor::step begins every time slice with it; for all states. Compiler-side residue (what is emitted around ^) is not decided; step's own postconditions (frame teardown, where else reclamation may not happen) are decided under C06 / C15.", "DESIGN.md §4 C16"),
}
NOTE = "Trusted: Verus 0.2026.09.13 + bundled Z3 4.16.0; vstd's specs of std; the assumed contracts listed by the mechanical scan in evidence.coverage.trusted_base (BigInt arithmetic = mathematical integers, derived Clone returns an equal value, Display/format is total, usize is 64 bit, dropping has no observable effect, a handful of std functions and iterator pieces vstd does not specify, the process table as an abstract map, handle_call's Function branch, the two instruction dispatchers, the runtime's own refcount oracle not firing, the receive-type test as an uninterpreted predicate); the extractor's closed list of syntactic normalisations N1-N18 and ghost-only splice anchors S1-S11 (DESIGN.md §2.1), each logged and undone by the erasure self-check on every run. Bounded stand-ins on the real code (boundary differential, transfer differential, program corpus) run only when the deductive check is undecided or in the thorough tier, are labelled bounded and never counted as proved."
TECH = "contract-based deductive verification (Verus/Z3) of functions re-extracted mechanically from /repo on every run"

def main():
    claimed = [p for p in ("C05", "C06", "C12", "C13", "C15", "C16") if any(os.path.exists(extract.unit_path(u)) for u in props.PROPS[p]["units"]) and p in (sys.argv[1:] or ["C05","C06","C12","C13","C15","C16"])]
    checks = []
    for p in claimed:
        cat, text, ref = LEVEL[p]
        checks.append({
            "property_id": p,
            "quick_cmd": "./check %s quick" % p,
            "thorough_cmd": "./check %s thorough" % p,
            "evidence_file": "/verif/evidence/%s.json" % p,
            "replay_cmd_template": "./check replay {path}",
            "engine": "verus-contracts",
            "level_claimed": {"category": cat, "text": text, "design_ref": ref},
            "level_note": NOTE,
            "technique": TECH,
        })
    na = [{"property_id": k, "reason": v} for k, v in sorted(NA.items())]
    for p in ("C05", "C06", "C12", "C13", "C15", "C16"):
        if p not in claimed:
            na.append({"property_id": p, "reason": "check not built yet in this revision of /verif (planned: DESIGN.md §4)"})
    man = {
        "version": 1,
        "setup_cmd": "./setup.sh",
        "hooks": {
            "guard": "--cfg quiver_verif (reserved; no hooks are needed: the machinery only reads /repo)",
            "enable": "none: checks re-extract functions from /repo's working tree; the replay crate links quiver-core by path",
            "baseline_off_cmd": "cd /repo && cargo test --workspace --no-fail-fast --offline",
            "source_commits": [],
            "add_only": True,
        },
        "engines": [
            {"name": "verus-contracts", "path": "/verif/check", "serves_properties": claimed,
             "kind_free_text": "Python extractor/splicer (vf/) + contract files (contracts/*.vspec) + Verus 0.2026.09.13 single-file verification; Kani 0.68 for loop-free kernels"},
        ],
        "checks": checks,
        "not_applicable": sorted(na, key=lambda x: x["property_id"]),
        "notes": "See DESIGN.md. Exit 0 = all obligations discharged; exit 1 + VIOLATION = a baseline obligation fails on the re-extracted text; exit 2 = undecided for infrastructure reasons (never an alarm).",
    }
    with open(os.path.join(os.path.dirname(os.path.abspath(__file__)), "MANIFEST.json"), "w") as f:
        json.dump(man, f, indent=1)
    print("claimed", claimed)
main()
