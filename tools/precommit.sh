#!/bin/bash
# Developer helper (not a registered check): refuses to commit unless /repo is clean, all six quick checks say OK on it,
# MANIFEST and every evidence file validate and discharged == obligations.   usage: tools/precommit.sh "message"
set -e
cd /verif
if [ -n "$(git -C /repo status --short)" ]; then echo "/repo has uncommitted changes - revert them first"; exit 1; fi
./check baseline | tail -1
for p in C05 C06 C12 C13 C15 C16; do
  out=$(./check $p quick 2>&1 | tail -1); echo "$out"
  case "$out" in OK*) ;; *) echo "not OK - no commit"; exit 1;; esac
done
python3 gen_manifest.py > /dev/null
python3-vt - <<'PY'
import json, jsonschema, glob
jsonschema.validate(json.load(open('/verif/MANIFEST.json')), json.load(open('/root/.vp/MANIFEST.schema.json')))
sch = json.load(open('/root/.vp/EVIDENCE.schema.json'))
for f in sorted(glob.glob('/verif/evidence/*.json')):
    d = json.load(open(f)); jsonschema.validate(d, sch)
    assert d['coverage']['obligations'] == d['coverage']['discharged'], f
    assert d['tier'] == 'quick', f
print('manifest and evidence valid')
PY
git add -A
git commit -q -m "$1"
echo committed
