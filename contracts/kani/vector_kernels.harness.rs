// Kani harnesses for the loop-free lane kernels of builtins/vector.rs.  The functions above this
// line are cut verbatim from /repo on every run.  The model below is plain i128 arithmetic on the
// individual bytes; it shares nothing with from_le_bytes/to_le_bytes.

#[cfg(kani)]
mod verif_harness {
    use super::*;

    /// little-endian two's-complement value of w bytes, by arithmetic
    fn le_signed(b: &[u8]) -> i128 {
        let mut v: i128 = 0;
        let mut k = 0;
        while k < b.len() {
            v += (b[k] as i128) << (8 * k);
            k += 1;
        }
        let m: i128 = 1i128 << (8 * b.len());
        if 2 * v >= m { v - m } else { v }
    }

    /// byte k of the w-byte two's-complement encoding of v, by arithmetic
    fn le_byte(v: i128, w: usize, k: usize) -> u8 {
        let m: i128 = 1i128 << (8 * w);
        let u = if v < 0 { v + m } else { v };
        ((u >> (8 * k)) % 256) as u8
    }

    // lane(): every content of the lane, every in-bounds index of a buffer of up to three lanes.
    #[kani::proof]
    #[kani::unwind(9)]
    fn lane_8() {
        let buf: [u8; 24] = kani::any();
        let n: usize = kani::any();
        kani::assume(n <= 24);
        let i: usize = kani::any();
        kani::assume(i < 3 && (i + 1) * 8 <= n);
        let r = lane(&buf[..n], 8, i);
        assert!(r as i128 == le_signed(&buf[i * 8..i * 8 + 8]));
    }

    #[kani::proof]
    #[kani::unwind(5)]
    fn lane_4() {
        let buf: [u8; 12] = kani::any();
        let n: usize = kani::any();
        kani::assume(n <= 12);
        let i: usize = kani::any();
        kani::assume(i < 3 && (i + 1) * 4 <= n);
        let r = lane(&buf[..n], 4, i);
        assert!(r as i128 == le_signed(&buf[i * 4..i * 4 + 4]));
    }

    // fits(): every i64 and every width.
    #[kani::proof]
    fn fits_all() {
        let v: i64 = kani::any();
        let w: usize = kani::any();
        let expect = (w == 8) || (w == 4 && v >= -(1i64 << 31) && v < (1i64 << 31));
        assert!(fits(v, w) == expect);
    }

    // push_lane(): every i64; the prefix already in the buffer is preserved.
    #[kani::proof]
    #[kani::unwind(9)]
    fn push_lane_8() {
        let v: i64 = kani::any();
        let p: u8 = kani::any();
        let mut out: Vec<u8> = Vec::new();
        out.push(p);
        push_lane(&mut out, 8, v);
        assert!(out.len() == 9 && out[0] == p);
        let mut k = 0;
        while k < 8 {
            assert!(out[1 + k] == le_byte(v as i128, 8, k));
            k += 1;
        }
    }

    #[kani::proof]
    #[kani::unwind(5)]
    fn push_lane_4() {
        let v: i64 = kani::any();
        let p: u8 = kani::any();
        let mut out: Vec<u8> = Vec::new();
        out.push(p);
        push_lane(&mut out, 4, v);
        assert!(out.len() == 5 && out[0] == p);
        // the contract: the 4-byte encoding of (value as i32), whatever value is
        let t = (v as i32) as i128;
        let mut k = 0;
        while k < 4 {
            assert!(out[1 + k] == le_byte(t, 4, k));
            k += 1;
        }
    }
}
fn main() {}
