// Kani harnesses for the binary-heap allocator: a BOUNDED stand-in that complements the Verus proofs of
// allocate_binary_data / process_pending_free (unit heap).  It exists for changes that put those functions
// outside the deductive check (e.g. a new loop for which no invariant exists: lost anchor, exit 2).
// Everything above this line is cut verbatim from /repo on every run (struct Executor reduced to its heap
// fields, BinaryData without its Drop impl).  BOUNDED: heaps of at most 3 slots, at most 3 queued frees.

#[cfg(kani)]
mod verif_harness {
    use super::*;

    pub enum NoE {}
    impl Effect for NoE {}

    const N: usize = 2;

    /// An arbitrary executor satisfying the representation invariant heap_wf of the contracts:
    /// parallel vectors, freed => count 0, free list = the freed slots without duplicates, queue in range.
    fn any_wf() -> Executor<NoE> {
        let n: usize = kani::any();
        kani::assume(n <= N);
        // capacities are fixed up front so that CBMC does not have to model reallocation
        let mut heap = Vec::with_capacity(N + 2);
        let mut refcounts = Vec::with_capacity(N + 2);
        let mut freed = Vec::with_capacity(N + 2);
        let mut free = Vec::with_capacity(N + 2);
        let mut i = 0;
        while i < n {
            let f: bool = kani::any();
            let c: u32 = kani::any();
            kani::assume(c <= 2 && (!f || c == 0));
            heap.push(BinaryData::Zeroed(1)); // a one-byte binary without an allocation of its own
            refcounts.push(c);
            freed.push(f);
            if f {
                free.push(i);
            }
            i += 1;
        }
        let mut pending_free = Vec::with_capacity(4);
        let q: usize = kani::any();
        kani::assume(q <= 2);
        let mut k = 0;
        while k < q {
            let x: usize = kani::any();
            kani::assume(x < n);
            pending_free.push(x); // duplicates allowed, as after a move (release then retain)
            k += 1;
        }
        Executor { heap, refcounts, free, pending_free, freed, reclaimed: 0, _e: core::marker::PhantomData }
    }

    fn slot(b: Binary) -> usize {
        match b {
            Binary::Heap(i) => i,
            Binary::Constant(_) => usize::MAX,
        }
    }

    fn is_zeroed(d: &BinaryData, k: usize) -> bool {
        match d {
            BinaryData::Zeroed(n) => *n == k,
            _ => false,
        }
    }

    // Two allocations in a row (as inject_heap_data does for a message carrying two binaries) never hand out
    // a slot that was allocated, never the same slot twice, and both binaries are still what was stored.
    #[kani::proof]
    #[kani::unwind(4)]
    fn two_allocations_never_alias() {
        let mut ex = any_wf();
        let n0 = ex.heap.len();
        let f0 = n0 > 0 && ex.freed[0];
        let f1 = n0 > 1 && ex.freed[1];
        let a = match ex.allocate_binary_data(BinaryData::Zeroed(2)) {
            Ok(b) => slot(b),
            Err(_) => return,
        };
        assert!(a == n0 || (a == 0 && f0) || (a == 1 && f1));
        let b = match ex.allocate_binary_data(BinaryData::Zeroed(3)) {
            Ok(b) => slot(b),
            Err(_) => return,
        };
        assert!(b != a);
        assert!(b == n0 || b == n0 + 1 || (b == 0 && f0) || (b == 1 && f1));
        assert!(!ex.freed[a] && !ex.freed[b]);
        assert!(is_zeroed(&ex.heap[a], 2) && is_zeroed(&ex.heap[b], 3));
    }

    // Reclamation never frees a counted slot and leaves the vectors parallel.
    #[kani::proof]
    #[kani::unwind(4)]
    fn pending_free_never_frees_counted() {
        let mut ex = any_wf();
        let n0 = ex.heap.len();
        let c0 = if n0 > 0 { ex.refcounts[0] } else { 0 };
        let c1 = if n0 > 1 { ex.refcounts[1] } else { 0 };
        ex.process_pending_free();
        assert!(ex.heap.len() == n0 && ex.refcounts.len() == n0 && ex.freed.len() == n0);
        if n0 > 0 {
            assert!(ex.refcounts[0] == c0);
            if c0 > 0 {
                assert!(!ex.freed[0] && is_zeroed(&ex.heap[0], 1));
            }
        }
        if n0 > 1 {
            assert!(ex.refcounts[1] == c1);
            if c1 > 0 {
                assert!(!ex.freed[1] && is_zeroed(&ex.heap[1], 1));
            }
        }
        assert!(ex.pending_free.is_empty());
    }
}
fn main() {}
