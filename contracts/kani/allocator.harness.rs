// Kani harnesses for the binary-heap allocator: a BOUNDED stand-in that complements the Verus proofs of
// allocate_binary_data / process_pending_free (unit heap).  It exists for changes that put those functions
// outside the deductive check (e.g. a new loop for which no invariant exists: lost anchor, exit 2).
// Everything above this line is cut verbatim from /repo on every run (struct Executor reduced to its heap
// fields, BinaryData without its Drop impl).  BOUNDED: heaps of at most 3 slots, at most 3 queued frees.

#[cfg(kani)]
mod verif_harness {
    use super::*;

    pub enum NoE {}
    impl Effect for NoE {}

    const N: usize = 3;

    /// An arbitrary executor satisfying the representation invariant heap_wf of the contracts:
    /// parallel vectors, freed => count 0, free list = the freed slots without duplicates, queue in range.
    fn any_wf() -> Executor<NoE> {
        let n: usize = kani::any();
        kani::assume(n <= N);
        // capacities are fixed up front so that CBMC does not have to model reallocation
        let mut heap = Vec::with_capacity(N + 2);
        let mut refcounts = Vec::with_capacity(N + 2);
        let mut freed = Vec::with_capacity(N + 2);
        let mut free = Vec::with_capacity(N + 2);
        let mut i = 0;
        while i < n {
            let f: bool = kani::any();
            let c: u32 = kani::any();
            kani::assume(c <= 2 && (!f || c == 0));
            heap.push(BinaryData::Zeroed(1)); // a one-byte binary without an allocation of its own
            refcounts.push(c);
            freed.push(f);
            if f {
                free.push(i);
            }
            i += 1;
        }
        let mut pending_free = Vec::with_capacity(4);
        let q: usize = kani::any();
        kani::assume(q <= 3);
        let mut k = 0;
        while k < q {
            let x: usize = kani::any();
            kani::assume(x < n);
            pending_free.push(x); // duplicates allowed, as after a move (release then retain)
            k += 1;
        }
        Executor { heap, refcounts, free, pending_free, freed, reclaimed: 0, _e: core::marker::PhantomData }
    }

    fn slot(b: Binary) -> usize {
        match b {
            Binary::Heap(i) => i,
            Binary::Constant(_) => usize::MAX,
        }
    }

    // Two allocations in a row (as inject_heap_data does for a message carrying two binaries) never hand out
    // a slot that was allocated, never the same slot twice, and both binaries read back their bytes.
    #[kani::proof]
    #[kani::unwind(6)]
    fn two_allocations_never_alias() {
        let mut ex = any_wf();
        let n0 = ex.heap.len();
        let was_free: Vec<bool> = ex.freed.clone();
        let a = slot(ex.allocate_binary_data(BinaryData::Zeroed(2)).unwrap());
        assert!(a == n0 || (a < n0 && was_free[a]));
        let b = slot(ex.allocate_binary_data(BinaryData::Zeroed(3)).unwrap());
        assert!(b != a);
        assert!(b == n0 || b == n0 + 1 || (b < n0 && was_free[b]));
        assert!(!ex.freed[a] && !ex.freed[b]);
        assert!(ex.heap[a].len() == 2 && ex.heap[b].len() == 3);
    }

    // Reclamation never frees a counted slot, never touches a slot that was not queued, and leaves the
    // vectors parallel.
    #[kani::proof]
    #[kani::unwind(6)]
    fn pending_free_never_frees_counted() {
        let mut ex = any_wf();
        let n0 = ex.heap.len();
        let counts: Vec<u32> = ex.refcounts.clone();
        let was_free: Vec<bool> = ex.freed.clone();
        ex.process_pending_free();
        assert!(ex.heap.len() == n0 && ex.refcounts.len() == n0 && ex.freed.len() == n0);
        let mut i = 0;
        while i < n0 {
            assert!(ex.refcounts[i] == counts[i]);
            if counts[i] > 0 {
                assert!(!ex.freed[i] && ex.heap[i].len() == 1);
            }
            if was_free[i] {
                assert!(ex.freed[i]);
            }
            i += 1;
        }
        assert!(ex.pending_free.is_empty());
    }
}
fn main() {}
