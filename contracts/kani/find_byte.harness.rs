// Kani harness for BinaryData::find_byte (iterator adapters keep it outside the Verus dialect).
// Everything above this line is cut verbatim from /repo/quiver-core/src/binary.rs on every run
// (enum BinaryData and the methods named in vf/kani.py; the iterative Drop impl and its
// thread_local are NOT extracted - Kani 0.68 ICEs on them, and dropping does not affect any value).
// BOUNDED: ropes of at most 3 nodes over leaves of at most 3 symbolic bytes, all five node kinds.

#[cfg(kani)]
mod verif_harness {
    use super::*;

    fn scan(flat: &[u8], n: usize, byte: u8, offset: usize) -> Option<usize> {
        let mut k = offset;
        while k < n {
            if flat[k] == byte {
                return Some(k);
            }
            k += 1;
        }
        None
    }

    fn check(rope: &BinaryData, flat: &[u8], n: usize) {
        assert!(rope.len() == n);
        let byte: u8 = kani::any();
        let offset: usize = kani::any();
        kani::assume(offset <= n + 1);
        assert!(rope.find_byte(byte, offset) == scan(flat, n, byte, offset));
    }

    fn leaf3() -> (Rc<BinaryData>, [u8; 3]) {
        let b: [u8; 3] = kani::any();
        (Rc::new(BinaryData::new(vec![b[0], b[1], b[2]])), b)
    }

    #[kani::proof]
    #[kani::unwind(8)]
    fn owned() {
        let (r, b) = leaf3();
        check(&r, &b, 3);
    }

    #[kani::proof]
    #[kani::unwind(8)]
    fn zeroed() {
        let n: usize = kani::any();
        kani::assume(n <= 3);
        let flat = [0u8; 3];
        check(&BinaryData::zeroed(n), &flat, n);
    }

    #[kani::proof]
    #[kani::unwind(8)]
    fn slice_of_owned() {
        let (r, b) = leaf3();
        let off: usize = kani::any();
        let len: usize = kani::any();
        kani::assume(off <= 3 && len <= 3 && off + len <= 3);
        // build the Slice node directly so that the normalising shortcuts of slice() are also bypassed
        let rope = BinaryData::Slice { parent: r, offset: off, length: len };
        let mut flat = [0u8; 3];
        let mut k = 0;
        while k < len {
            flat[k] = b[off + k];
            k += 1;
        }
        check(&rope, &flat, len);
    }

    #[kani::proof]
    #[kani::unwind(10)]
    fn concat_owned_owned() {
        let (l, a) = leaf3();
        let (r, b) = leaf3();
        let rope = BinaryData::concat(l, r);
        let flat = [a[0], a[1], a[2], b[0], b[1], b[2]];
        check(&rope, &flat, 6);
    }

    #[kani::proof]
    #[kani::unwind(10)]
    fn concat_slice_zeroed() {
        let (l, a) = leaf3();
        let off: usize = kani::any();
        kani::assume(off <= 2);
        let s = Rc::new(BinaryData::Slice { parent: l, offset: off, length: 3 - off });
        let z = Rc::new(BinaryData::zeroed(2));
        let rope = BinaryData::concat(s, z);
        let mut flat = [0u8; 5];
        let mut k = 0;
        while k < 3 - off {
            flat[k] = a[off + k];
            k += 1;
        }
        check(&rope, &flat, 3 - off + 2);
    }

    #[kani::proof]
    #[kani::unwind(10)]
    fn tiled_owned() {
        let b: [u8; 2] = kani::any();
        let unit = Rc::new(BinaryData::new(vec![b[0], b[1]]));
        let count: usize = kani::any();
        kani::assume(count <= 3);
        let rope = BinaryData::Tiled { unit, count };
        let flat = [b[0], b[1], b[0], b[1], b[0], b[1]];
        check(&rope, &flat, 2 * count);
    }

    #[kani::proof]
    #[kani::unwind(10)]
    fn slice_of_tiled() {
        let b: [u8; 2] = kani::any();
        let unit = Rc::new(BinaryData::new(vec![b[0], b[1]]));
        let t = Rc::new(BinaryData::Tiled { unit, count: 3 });
        let off: usize = kani::any();
        let len: usize = kani::any();
        kani::assume(off <= 6 && len <= 6 && off + len <= 6);
        let rope = BinaryData::Slice { parent: t, offset: off, length: len };
        let all = [b[0], b[1], b[0], b[1], b[0], b[1]];
        let mut flat = [0u8; 6];
        let mut k = 0;
        while k < len {
            flat[k] = all[off + k];
            k += 1;
        }
        check(&rope, &flat, len);
    }

    #[kani::proof]
    #[kani::unwind(10)]
    fn tiled_concat() {
        let a: u8 = kani::any();
        let b: u8 = kani::any();
        let l = Rc::new(BinaryData::new(vec![a]));
        let r = Rc::new(BinaryData::new(vec![b]));
        let unit = Rc::new(BinaryData::concat(l, r));
        let count: usize = kani::any();
        kani::assume(count <= 3);
        let rope = BinaryData::Tiled { unit, count };
        let flat = [a, b, a, b, a, b];
        check(&rope, &flat, 2 * count);
    }
}
fn main() {}
