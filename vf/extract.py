"""Mechanical extraction of real quiver functions into a self-contained Verus file.

A unit is described by /verif/contracts/<unit>.vspec (directive syntax below).  Everything that is
executable in the generated file is cut verbatim from /repo's current working tree; the only
changes are (a) the closed list of syntactic normalisations N1..N16 and (b) specification text
spliced at structural anchor points S1..S10.  Every change is an `Edit` with its source offset; an
erasure self-check undoes all of them on the generated text and demands the verbatim cut back.

Directives (a line starting with `//@ `; text up to the next directive belongs to it):

  //@ unit NAME
  //@ strip-paths P1 P2 ...           path prefixes removed from cut code (N5)
  //@ include FILE                    splice another directive file (relative to contracts/)
  //@ raw                             following text emitted as is (spec fns, lemmas, stubs)
  //@ cut KIND NAME from FILE [keep=a,b] [derive=Clone,Copy] [extra=TEXT]
  //@ open TEXT                       emits `TEXT {`   (an impl header)
  //@ close                           emits `}`
  //@ fn QUAL from FILE [ret=r] [class=...]
  //@@ contract                       S1  requires/ensures/decreases
  //@@ prologue                       S2
  //@@ loop N header [iter=it]        S3 (+N9)
  //@@ loop N pre                     S4
  //@@ loop N post                    S5
  //@@ loop N after                   S8  ghost text right after the loop
  //@@ loop N before                  S9  ghost text right before the loop statement
  //@@ let NAME K after               S10 ghost text right after the K-th let statement binding NAME
  //@@ epilogue                       S6
  //@@ closure N [ret=b] [type=bool]  S7  requires/ensures on the N-th closure (+N12 brace wrapping)
  //@ import QUAL from FILE home=UNIT [ret=r]     signature from the real source, contract text
                                                  from the home unit, body external
  //@ assume QUAL from FILE reason=TEXT [ret=r]   like import but the contract (own //@@ contract)
                                                  is NOT proved anywhere in Verus: trusted base
"""
import hashlib
import os
import re
import shlex

from . import rustscan as rs

REPO = os.environ.get("VERIF_REPO", "/repo")
ROOT = os.path.dirname(os.path.dirname(os.path.abspath(__file__)))
CONTRACTS = os.path.join(ROOT, "contracts")


class ExtractError(Exception):
    """Infrastructure problem (lost anchor, construct outside the dialect...) -> exit 2."""


class Edit:
    __slots__ = ("off", "old", "new", "kind")

    def __init__(self, off, old, new, kind):
        self.off = off
        self.old = old
        self.new = new
        self.kind = kind


def apply_edits(text, edits):
    """Returns (out, placed) with placed = [(out_start, out_end, edit)]."""
    edits = sorted(edits, key=lambda e: (e.off, 0 if e.old == "" else 1))
    out = []
    placed = []
    pos = 0
    outlen = 0
    for e in edits:
        if e.off < pos:
            raise ExtractError("overlapping edits at %d (%s)" % (e.off, e.kind))
        if text[e.off : e.off + len(e.old)] != e.old:
            raise ExtractError("edit does not match source at %d (%s)" % (e.off, e.kind))
        seg = text[pos : e.off]
        out.append(seg)
        outlen += len(seg)
        out.append(e.new)
        placed.append((outlen, outlen + len(e.new), e))
        outlen += len(e.new)
        pos = e.off + len(e.old)
    out.append(text[pos:])
    return "".join(out), placed


def erase(out, placed):
    res = []
    pos = 0
    for a, b, e in placed:
        res.append(out[pos:a])
        res.append(e.old)
        pos = b
    res.append(out[pos:])
    return "".join(res)


# ----------------------------------------------------------------------------------------------
# vspec parsing


class Section:
    def __init__(self, kind, args, text, where):
        self.kind = kind
        self.args = args
        self.text = text
        self.where = where


class Directive:
    def __init__(self, kind, args, where):
        self.kind = kind
        self.args = args
        self.text = ""
        self.sections = []
        self.where = where

    def opt(self, key, default=None):
        for a in self.args:
            if a.startswith(key + "="):
                return a[len(key) + 1 :]
        return default

    def section(self, kind, pred=None):
        for s in self.sections:
            if s.kind == kind and (pred is None or pred(s)):
                return s
        return None


def parse_vspec(path, _seen=None):
    _seen = _seen or set()
    if path in _seen:
        raise ExtractError("recursive include " + path)
    _seen = _seen | {path}
    dirs = []
    cur = None
    cursec = None
    with open(path) as f:
        lines = f.read().split("\n")
    for ln, line in enumerate(lines, 1):
        if line.startswith("//@@ "):
            if cur is None or cur.kind not in ("fn", "assume"):
                raise ExtractError("%s:%d: section outside fn" % (path, ln))
            parts = shlex.split(line[5:])
            cursec = Section(parts[0], parts[1:], "", "%s:%d" % (path, ln))
            cur.sections.append(cursec)
        elif line.startswith("//@ "):
            if line[4:].startswith("open "):
                parts = ["open", line[9:].strip()]  # raw text: an impl header may contain lifetimes ('a)
            else:
                parts = shlex.split(line[4:])
            if parts[0] == "include":
                inc = os.path.join(CONTRACTS, parts[1])
                dirs.extend(parse_vspec(inc, _seen))
                cur = None
                cursec = None
                continue
            cur = Directive(parts[0], parts[1:], "%s:%d" % (path, ln))
            cursec = None
            dirs.append(cur)
        elif line.startswith("//#"):
            continue  # vspec comment
        else:
            if cursec is not None:
                cursec.text += line + "\n"
            elif cur is not None:
                cur.text += line + "\n"
            elif line.strip():
                raise ExtractError("%s:%d: text before first directive" % (path, ln))
    return dirs


def unit_path(unit):
    return os.path.join(CONTRACTS, unit + ".vspec")


def find_fn_directive(unit, qual):
    for d in parse_vspec(unit_path(unit)):
        if d.kind == "fn" and d.args[0] == qual:
            return d
    raise ExtractError("unit %s has no fn %s" % (unit, qual))


# ----------------------------------------------------------------------------------------------
# source files


class Source:
    _cache = {}

    def __init__(self, rel):
        self.rel = rel
        p = os.path.join(REPO, rel)
        try:
            with open(p) as f:
                self.src = f.read()
        except OSError as e:
            raise ExtractError("cannot read %s: %s" % (p, e))
        try:
            self.mask = rs.mask(self.src)
        except rs.ScanError as e:
            raise ExtractError("cannot scan %s: %s" % (rel, e))

    @classmethod
    def get(cls, rel):
        if rel not in cls._cache:
            cls._cache[rel] = Source(rel)
        return cls._cache[rel]

    @classmethod
    def reset(cls):
        cls._cache = {}


# ----------------------------------------------------------------------------------------------
# normalisations on a cut (text, mask) pair; all return lists of Edit relative to the cut

_MACROS_N2 = {
    "debug_assert": "verif_debug_assert",
    "assert": "verif_debug_assert",
    "panic": "verif_panic",
    "unreachable": "verif_panic",
    "unimplemented": "verif_panic",
    "todo": "verif_panic",
}


def _split_top_commas(s, ms):
    parts = []
    d = 0
    last = 0
    for k, ch in enumerate(ms):
        if ch in "([{":
            d += 1
        elif ch in ")]}":
            d -= 1
        elif ch == "," and d == 0:
            parts.append(s[last:k])
            last = k + 1
    parts.append(s[last:])
    return parts


def _split_fields(s, ms):
    """Top-level comma split for struct bodies: also tracks <...> (generics; `->` is skipped)."""
    parts = []
    d = 0
    last = 0
    for k, ch in enumerate(ms):
        if ch in "([{<":
            d += 1
        elif ch in ")]}":
            d -= 1
        elif ch == ">" and not (k > 0 and ms[k - 1] == "-"):
            d -= 1
        elif ch == "," and d == 0:
            parts.append(s[last:k])
            last = k + 1
    parts.append(s[last:])
    return parts


def norm_macros(text, m, prefixes=()):
    edits = []
    for mm in re.finditer(r"\b(format|debug_assert|assert|panic|unreachable|unimplemented|todo)!\s*\(", m):
        name = mm.group(1)
        s = mm.start()
        o = mm.end() - 1
        c = rs.match_close(m, o)
        inner = text[o + 1 : c]
        minner = m[o + 1 : c]
        if name == "format":
            new = "verif_format((" + inner + "))"
            kind = "norm:N1"
        elif name in ("debug_assert", "assert"):
            first = _split_top_commas(inner, minner)[0]
            new = "verif_debug_assert(" + first.strip() + ")"
            kind = "norm:N2"
        else:
            new = "verif_panic((" + inner + "))"
            kind = "norm:N2"
        for p in sorted(prefixes, key=len, reverse=True):
            new = re.sub(r"(?<![\w:])" + re.escape(p), "", new)
        edits.append(Edit(s, text[s : c + 1], new, kind))
    # nested macros (format! inside panic!) would overlap; keep outermost only
    edits.sort(key=lambda e: e.off)
    res = []
    end = -1
    for e in edits:
        if e.off >= end:
            res.append(e)
            end = e.off + len(e.old)
    return res


def norm_closure_underscore(text, m):
    return [Edit(mm.start(), "|_|", "|_verif_unused|", "norm:N3") for mm in re.finditer(r"\|_\|", m)]


_N13_ZIP_ALL = re.compile(r"(?<![\w.])(\w+)(\s*\.iter\(\)\s*\.zip\()(\w+)(\.iter\(\)\)\s*\.all\()(?=\|)")
_N13_ALL = re.compile(r"(?<![\w.])(\w+(?:\.\w+)*)(\s*\.iter\(\)\s*\.all\()(?=\|)")
_N13_ANY = re.compile(r"(?<![\w.])(\w+(?:\.\w+)*)(\s*\.iter\(\)\s*\.any\()(?=\|)")
_N13_ZIP_MAP = re.compile(r"(?<![\w.])(\w+\s*\.iter\(\))(\s*\.zip\()(\w+\s*\.iter\(\))(\)\s*\.map\()(?=\|)")
_N13_MAP = re.compile(r"(?<![\w.])(\w+\s*\.iter\(\))(\s*\.map\()(?=\|)")
_N13_POSITION = re.compile(r"(?<![\w.])(\w+(?:\[[^\]\n]*\])?)(\s*\.iter\(\)\s*\.position\()(?=\|)")
_N13_SET_COLLECT = re.compile(r"(?<![\w.])(\w+)(\s*\.into_iter\(\)\s*\.collect\(\))")
_N13_CLONED_COLLECT = re.compile(r"(?<![\w.])(\w+)(\s*\.iter\(\)\s*\.cloned\(\)\s*\.collect\(\))")
_N13_FILTER_COUNT = re.compile(r"(?<![\w.])(\w+(?:\.\w+)*(?:\[[^\]\n]*\])?)(\s*\.iter\(\)\s*\.filter\()(?=\|)")
_N13_TAIL_COUNT = re.compile(r"\)\s*\.count\(\)")
_N13_RETAIN = re.compile(r"(?<![\w.])(\w+(?:\.\w+)*)(\s*\.retain\()(?=\|)")
_N13_SET_FILTER = re.compile(r"(?<![\w.])(\w+(?:\s*\.\s*\w+)*)(\s*\.iter\(\)\s*\.filter\()(?=\|)")
_N13_TAIL_COPIED_COLLECT = re.compile(r"\)\s*\.copied\(\)\s*\.collect\(\)")
_N13_FILTER_MAP = re.compile(r"(?<![\w.])(\w+(?:\s*\.\s*\w+)*)(\s*\.iter\(\)\s*\.filter_map\()(?=\|)")
_N13_FOLD = re.compile(r"(?<![\w.])(\w+\s*\.iter\(\))(\s*\.fold\()")
_N13_TAIL_COLLECT = re.compile(r"\)\s*\.collect\(\)")
_N13_TAIL_SUM = re.compile(r"\)\s*\.sum\(\)")


def norm_iter_chains(text, m, body_open, body_close):
    """N13: a std iterator chain is *outlined* into a helper function whose body is that same chain and whose
    contract is PROVED from vstd's specifications of std iterators in the same file (contracts/common/
    iter_helpers.vinc).  Needed because Verus does not apply those specifications to a closure written inside a
    generic function (every builtin and every Executor method is generic over the effect type).  The operands,
    the closure and its body stay verbatim and in place; only the combinator names move into the helper:
        A.iter().zip(B.iter()).all(C)            ->  verif_zip_all(&A, &B, C)
        A.iter().all(C)                          ->  verif_all(&A, C)
        A.iter().any(C)                          ->  verif_any(&A, C)
        A.iter().zip(B.iter()).map(C).collect()  ->  verif_zip_map_collect(A.iter(), B.iter(), C)
        A.iter().map(C).collect()                ->  verif_map_collect(A.iter(), C)
        A.iter().map(C).sum()                    ->  verif_map_sum(A.iter(), C)
        let x: Result<Vec<_>, _> = A.iter().map(C).collect()  ->  ... = verif_map_collect_result(&A, C)
        A.iter().fold(INIT, C)                   ->  verif_fold(A.iter(), INIT, C)
        A.iter().position(C)                     ->  verif_position(&A, C)         (A may be `name[range]`)
        let x: Vec<usize> = S.into_iter().collect()  ->  ... = verif_set_into_vec(S)   (S a HashSet<usize>)
        A.iter().cloned().collect()              ->  verif_cloned_collect(&A)
        A.iter().filter(C).count()               ->  verif_filter_count(&A, C)      (A may be `place[range]`)
        A.iter().filter_map(C).collect()         ->  verif_filter_map_collect(&A, C)
    with A, B identifiers and C a closure literal."""
    edits = []
    closures = None

    def closure_at(pos):
        nonlocal closures
        if closures is None:
            closures = find_closures_safe(m, body_open, body_close)
        for c in closures:
            if c[0] == pos:
                return c
        return None

    for mm in _N13_ZIP_ALL.finditer(m, body_open, body_close):
        edits.append(Edit(mm.start(1), "", "verif_zip_all(&", "norm:N13"))
        edits.append(Edit(mm.start(2), text[mm.start(2) : mm.end(2)], ", &", "norm:N13"))
        edits.append(Edit(mm.start(4), text[mm.start(4) : mm.end(4)], ", ", "norm:N13"))
    for mm in _N13_ALL.finditer(m, body_open, body_close):
        edits.append(Edit(mm.start(1), "", "verif_all(&", "norm:N13"))
        edits.append(Edit(mm.start(2), text[mm.start(2) : mm.end(2)], ", ", "norm:N13"))
    for mm in _N13_ANY.finditer(m, body_open, body_close):
        edits.append(Edit(mm.start(1), "", "verif_any(&", "norm:N13"))
        edits.append(Edit(mm.start(2), text[mm.start(2) : mm.end(2)], ", ", "norm:N13"))
    for mm in _N13_ZIP_MAP.finditer(m, body_open, body_close):
        c = closure_at(mm.end())
        if c is None:
            continue
        t = _N13_TAIL_COLLECT.match(m, c[3])
        if not t:
            continue
        edits.append(Edit(mm.start(1), "", "verif_zip_map_collect(", "norm:N13"))
        edits.append(Edit(mm.start(2), text[mm.start(2) : mm.end(2)], ", ", "norm:N13"))
        edits.append(Edit(mm.start(4), text[mm.start(4) : mm.end(4)], ", ", "norm:N13"))
        edits.append(Edit(t.start(), text[t.start() : t.end()], ")", "norm:N13"))
    for mm in _N13_MAP.finditer(m, body_open, body_close):
        c = closure_at(mm.end())
        if c is None:
            continue
        t = _N13_TAIL_COLLECT.match(m, c[3])
        name = "verif_map_collect("
        if t and re.search(r":\s*Result<Vec<[^=;]*=\s*$", m[max(0, mm.start(1) - 80) : mm.start(1)]):
            name = "verif_map_collect_result("  # `let x: Result<Vec<_>, _> = A.iter().map(C).collect();`
        if not t:
            t = _N13_TAIL_SUM.match(m, c[3])
            name = "verif_map_sum("
        if not t:
            continue
        if name == "verif_map_collect_result(":
            # the vector itself is handed over (`A.iter()` moves into the helper's body)
            ident = re.match(r"\w+", text[mm.start(1) : mm.end(1)]).group(0)
            edits.append(Edit(mm.start(1), text[mm.start(1) : mm.end(2)], name + "&" + ident + ", ", "norm:N13"))
        else:
            edits.append(Edit(mm.start(1), "", name, "norm:N13"))
            edits.append(Edit(mm.start(2), text[mm.start(2) : mm.end(2)], ", ", "norm:N13"))
        edits.append(Edit(t.start(), text[t.start() : t.end()], ")", "norm:N13"))
    for mm in _N13_POSITION.finditer(m, body_open, body_close):
        edits.append(Edit(mm.start(1), "", "verif_position(&", "norm:N13"))
        edits.append(Edit(mm.start(2), text[mm.start(2) : mm.end(2)], ", ", "norm:N13"))
    for mm in _N13_SET_COLLECT.finditer(m, body_open, body_close):
        # only for `let mut x: Vec<usize> = SET.into_iter().collect();`
        if re.search(r":\s*Vec<usize>\s*=\s*$", m[max(0, mm.start(1) - 60) : mm.start(1)]):
            edits.append(Edit(mm.start(1), "", "verif_set_into_vec(", "norm:N13"))
            edits.append(Edit(mm.start(2), text[mm.start(2) : mm.end(2)], ")", "norm:N13"))
    for mm in _N13_CLONED_COLLECT.finditer(m, body_open, body_close):
        edits.append(Edit(mm.start(1), "", "verif_cloned_collect(&", "norm:N13"))
        edits.append(Edit(mm.start(2), text[mm.start(2) : mm.end(2)], ")", "norm:N13"))
    for mm in _N13_FILTER_COUNT.finditer(m, body_open, body_close):
        c = closure_at(mm.end())
        if c is None:
            continue
        t = _N13_TAIL_COUNT.match(m, c[3])
        if not t:
            continue
        edits.append(Edit(mm.start(1), "", "verif_filter_count(&", "norm:N13"))
        edits.append(Edit(mm.start(2), text[mm.start(2) : mm.end(2)], ", ", "norm:N13"))
        edits.append(Edit(t.start(), text[t.start() : t.end()], ")", "norm:N13"))
    # `let S: HashSet<usize> = A.iter().copied().collect();` -> `... = verif_slice_into_set(A);`
    for mm in re.finditer(r":\s*HashSet<usize>\s*=\s*((\w+)\s*\.iter\(\)\s*\.copied\(\)\s*\.collect\(\))", m[:body_close]):
        if mm.start() < body_open:
            continue
        edits.append(Edit(mm.start(1), text[mm.start(1) : mm.end(1)], "verif_slice_into_set(" + mm.group(2) + ")", "norm:N13"))
    # `M.entry(K).or_default().push(V)` on a HashMap<usize, Vec<usize>> -> `verif_multimap_push(&mut M, K, V)` (no vstd
    # specification of the entry API)
    for mm in re.finditer(r"(?<![\w.])(\w+(?:\s*\.\s*\w+)*)\s*\.entry\(([^()]*)\)\s*\.or_default\(\)\s*\.push\(([^()]*)\)", m[:body_close]):
        if mm.start() < body_open:
            continue
        edits.append(Edit(mm.start(), text[mm.start() : mm.end()], "verif_multimap_push(&mut " + " ".join(text[mm.start(1) : mm.end(1)].split()).replace(" .", ".").replace(". ", ".") + ", " + text[mm.start(2) : mm.end(2)] + ", " + text[mm.start(3) : mm.end(3)] + ")", "norm:N13"))
    # `Q.retain(C)` on a VecDeque -> `verif_deque_retain(&mut Q, C)` (vstd has no specification of VecDeque::retain)
    for mm in _N13_RETAIN.finditer(m, body_open, body_close):
        if closure_at(mm.end()) is None:
            continue
        edits.append(Edit(mm.start(1), "", "verif_deque_retain(&mut ", "norm:N13"))
        edits.append(Edit(mm.start(2), text[mm.start(2) : mm.end(2)], ", ", "norm:N13"))
    # `S.iter().filter(C).copied().collect()` over a HashSet of Copy keys -> `verif_set_filter_collect(&S, C)`
    for mm in _N13_SET_FILTER.finditer(m, body_open, body_close):
        c = closure_at(mm.end())
        if c is None:
            continue
        t = _N13_TAIL_COPIED_COLLECT.match(m, c[3])
        if not t:
            continue
        edits.append(Edit(mm.start(1), "", "verif_set_filter_collect(&", "norm:N13"))
        edits.append(Edit(mm.start(2), text[mm.start(2) : mm.end(2)], ", ", "norm:N13"))
        edits.append(Edit(t.start(), text[t.start() : t.end()], ")", "norm:N13"))
    for mm in _N13_FILTER_MAP.finditer(m, body_open, body_close):
        c = closure_at(mm.end())
        if c is None:
            continue
        t = _N13_TAIL_COLLECT.match(m, c[3])
        if not t:
            continue
        # a closure over (key, value) pairs iterates a table, not a slice: its helper lives with the abstract map (A-procmap)
        helper = "verif_table_filter_map_collect" if m[c[0] + 1 : c[1]].strip().startswith("(") else "verif_filter_map_collect"
        edits.append(Edit(mm.start(1), "", helper + "(&", "norm:N13"))
        edits.append(Edit(mm.start(2), text[mm.start(2) : mm.end(2)], ", ", "norm:N13"))
        edits.append(Edit(t.start(), text[t.start() : t.end()], ")", "norm:N13"))
    for mm in _N13_FOLD.finditer(m, body_open, body_close):
        edits.append(Edit(mm.start(1), "", "verif_fold(", "norm:N13"))
        edits.append(Edit(mm.start(2), text[mm.start(2) : mm.end(2)], ", ", "norm:N13"))
    return edits


def find_closures_safe(m, body_open, body_close):
    try:
        return rs.find_closures(m, body_open, body_close)
    except Exception:
        return []


def norm_paths(text, m, prefixes):
    edits = []
    for p in sorted(prefixes, key=len, reverse=True):
        for mm in re.finditer(r"(?<![\w:])" + re.escape(p), m):
            edits.append(Edit(mm.start(), p, "", "norm:N5"))
    # drop overlaps (longest first wins)
    edits.sort(key=lambda e: (e.off, -len(e.old)))
    res = []
    end = -1
    for e in edits:
        if e.off >= end:
            res.append(e)
            end = e.off + len(e.old)
    return res


def norm_let_chains(text, m, lo, hi):
    """N7: `if A && let P = E { .. }` without else -> `if A { if let P = E { .. } }`."""
    edits = []
    for mm in re.finditer(r"\bif\b", m[:hi]):
        s = mm.start()
        if s < lo:
            continue
        try:
            o = rs.find_body_open(m, mm.end())
        except rs.ScanError:
            continue
        header = m[mm.end() : o]
        if not re.search(r"\blet\b", header):
            continue
        # top-level && positions
        d = 0
        ands = []
        k = 0
        while k < len(header):
            ch = header[k]
            if ch in "([{":
                d += 1
            elif ch in ")]}":
                d -= 1
            elif ch == "&" and header[k : k + 2] == "&&" and d == 0:
                ands.append(mm.end() + k)
                k += 1
            k += 1
        if not ands:
            continue  # plain `if let`
        c = rs.match_close(m, o)
        after = m[c + 1 :].lstrip()
        if after.startswith("else"):
            raise ExtractError("let-chain with else at offset %d: outside the dialect" % s)
        # is this `if` itself an `else if`?  then the rewrite would change meaning of later arms
        before = m[:s].rstrip()
        if before.endswith("else"):
            raise ExtractError("let-chain in else-if at offset %d: outside the dialect" % s)
        for a in ands:
            edits.append(Edit(a, "&&", "{ if", "norm:N7"))
        edits.append(Edit(c + 1, "", " }" * len(ands), "norm:N7"))
    return edits


# ----------------------------------------------------------------------------------------------
# function generation

_PROOF_STMT = re.compile(r"\s*(proof\s*\{|let\s+ghost\b|assert\b|broadcast\s+use\b)")


def _lint_ghost_only(text, where):
    """Body splices may only contain ghost statements: proof blocks, `let ghost`, asserts.
    (Verus's mode checker independently forbids proof code from touching exec state.)"""
    m = rs.mask(text)
    k = 0
    n = len(text)
    while k < n:
        while k < n and m[k] in " \t\n":
            k += 1
        if k >= n:
            break
        mm = _PROOF_STMT.match(m, k)
        if not mm:
            raise ExtractError("%s: non-ghost statement in splice: %r" % (where, text[k : k + 40]))
        # find end of statement
        if m[mm.end() - 1] == "{":
            k = rs.match_close(m, mm.end() - 1) + 1
        else:
            d = 0
            while k < n:
                ch = m[k]
                if ch in "([{":
                    d += 1
                elif ch in ")]}":
                    d -= 1
                elif ch == ";" and d == 0:
                    k += 1
                    break
                k += 1


def _signature_ret_edit(text, m, body_open, ret_name):
    """N8: `-> T` -> `-> (r: T)` in a fn header ending at body_open."""
    d = 0
    k = 0
    arrow = None
    while k < body_open:
        ch = m[k]
        if ch in "([":
            d += 1
        elif ch in ")]":
            d -= 1
        elif ch == "-" and m[k : k + 2] == "->" and d == 0:
            arrow = k
            break
        k += 1
    if arrow is None:
        return None
    tstart = arrow + 2
    wh = re.search(r"\bwhere\b", m[tstart:body_open])
    tend = tstart + wh.start() if wh else body_open
    ty = text[tstart:tend]
    tystrip = ty.strip()
    lead = ty[: len(ty) - len(ty.lstrip())]
    trail = ty[len(ty.rstrip()) :]
    return Edit(tstart, ty, lead + "(" + ret_name + ": " + tystrip + ")" + trail, "norm:N8")


class GenFn:
    def __init__(self):
        self.qual = None
        self.file = None
        self.line_start = None
        self.line_end = None
        self.sha256 = None
        self.out = None
        self.verbatim = None
        self.edits = None
        self.norm_counts = {}
        self.has_contract = False
        self.loops = 0


def gen_fn(d, strip_paths, mode="verify", contract_text=None, vacuity=False):
    """mode: 'verify' (body kept) | 'stub' (external_body)."""
    qual = d.args[0]
    if "from" not in d.args:
        raise ExtractError("%s: missing `from`" % d.where)
    rel = d.args[d.args.index("from") + 1]
    S = Source.get(rel)
    try:
        item, impl_header = rs.find_fn(S.src, S.mask, qual)
    except rs.ScanError as e:
        raise ExtractError("lost anchor: %s (%s)" % (e, d.where))
    text = S.src[item.start : item.end]
    m = S.mask[item.start : item.end]
    body_open = item.header_end - item.start
    body_close = len(text) - 1
    ret = d.opt("ret", "r")
    g = GenFn()
    g.qual = qual
    g.file = rel
    g.line_start = rs.line_of(S.src, item.start)
    g.line_end = rs.line_of(S.src, item.end)
    g.sha256 = hashlib.sha256(text.encode()).hexdigest()
    g.verbatim = text
    g.impl_header = impl_header

    edits = []
    e = _signature_ret_edit(text, m, body_open, ret)
    if e:
        edits.append(e)
    sig_paths = [x for x in norm_paths(text, m, strip_paths) if x.off < body_open]

    if mode == "stub":
        edits.extend(sig_paths)
        sig, placed = apply_edits(text[:body_open], [x for x in edits if x.off < body_open])
        ct = contract_text if contract_text is not None else ""
        g.out = "#[verifier::external_body]\n" + sig.rstrip() + "\n" + ct.rstrip() + "\n{ unimplemented!() }\n"
        g.has_contract = bool(ct.strip())
        g.edits = []
        return g

    contract = d.section("contract")
    if contract and contract.text.strip():
        g.has_contract = True
        edits.append(Edit(body_open, "", contract.text.rstrip() + "\n", "splice:S1"))
    pro = d.section("prologue")
    pro_text = ""
    if pro and pro.text.strip():
        _lint_ghost_only(pro.text, pro.where)
        pro_text = "\n" + pro.text.rstrip() + "\n"
    if vacuity:
        pro_text = "\nproof { assert(false); }" + pro_text
    if pro_text:
        edits.append(Edit(body_open + 1, "", pro_text, "splice:S2"))
    epi = d.section("epilogue")
    if epi and epi.text.strip():
        _lint_ghost_only(epi.text, epi.where)
        # before the closing brace of a unit-returning body; if the body ends in a tail expression, before that
        # expression (= after the last statement of the outermost block)
        pos = body_close
        dep = 0
        last_semi = None
        k = body_open + 1
        while k < body_close:
            ch = m[k]
            if ch in "([{":
                dep += 1
            elif ch in ")]}":
                dep -= 1
                if dep == 0 and ch == "}":
                    last_semi = k  # a block statement (loop, if, match) also ends a statement
            elif ch == ";" and dep == 0:
                last_semi = k
            k += 1
        if last_semi is not None and m[last_semi + 1 : body_close].strip():
            pos = last_semi + 1
        edits.append(Edit(pos, "", ("\n" if pos != body_close else "") + epi.text.rstrip() + "\n", "splice:S6"))

    # S10: ghost text right after the K-th `let` statement that binds NAME: `//@@ let NAME K after`
    # (structural: let statements of the body in source order whose pattern mentions the identifier; renaming the
    # local loses the anchor -> exit 2, exactly as for an invariant that names it)
    for s in d.sections:
        if s.kind != "let":
            continue
        try:
            name, k, what = s.args[0], int(s.args[1]), s.args[2]
        except (ValueError, IndexError):
            raise ExtractError("%s: expected `let NAME K after`" % s.where)
        if what != "after":
            raise ExtractError("%s: unknown let section %s" % (s.where, what))
        found = []
        for mm in re.finditer(r"\blet\b", m[:body_close]):
            if mm.start() <= body_open:
                continue
            # pattern: up to the first `=` (not `==`, `=>`) or `;` at depth 0
            j = mm.end()
            dep = 0
            eq = None
            while j < body_close:
                ch = m[j]
                if ch in "([{<":
                    dep += 1
                elif ch in ")]}>":
                    dep -= 1
                elif ch == "=" and dep <= 0 and m[j + 1] not in "=>" and m[j - 1] not in "=!<>":
                    eq = j
                    break
                elif ch == ";" and dep <= 0:
                    break
                j += 1
            pat = m[mm.end() : j]
            if not re.search(r"\b" + re.escape(name) + r"\b", pat):
                continue
            # statement end: the `;` at bracket depth 0 after the initialiser (a let-else block is skipped by depth)
            dep = 0
            e = j
            while e < body_close:
                ch = m[e]
                if ch in "([{":
                    dep += 1
                elif ch in ")]}":
                    dep -= 1
                elif ch == ";" and dep == 0:
                    break
                e += 1
            found.append(e)
        if k < 1 or k > len(found):
            raise ExtractError("lost anchor: %s has %d `let` statements binding `%s`, contract names number %d (%s)" % (qual, len(found), name, k, s.where))
        _lint_ghost_only(s.text, s.where)
        edits.append(Edit(found[k - 1] + 1, "", "\n" + s.text.rstrip() + "\n", "splice:S10"))

    # S11: ghost text right before the K-th `return` statement of the body: `//@@ return K before` (facts the returned
    # call's precondition needs, where no `let` offers an anchor).  The function must then declare `returns=N`; a
    # different number of `return`s in the real body loses the anchor -> exit 2.
    rets = [mm.start() for mm in re.finditer(r"\breturn\b", m[:body_close]) if mm.start() > body_open]
    declared_returns = d.opt("returns")
    if declared_returns is not None and int(declared_returns) != len(rets):
        raise ExtractError("lost anchor: %s has %d return statements, contract file says %s (%s)" % (qual, len(rets), declared_returns, d.where))
    for s in d.sections:
        if s.kind != "return":
            continue
        try:
            k, what = int(s.args[0]), s.args[1]
        except (ValueError, IndexError):
            raise ExtractError("%s: expected `return K before`" % s.where)
        if what != "before":
            raise ExtractError("%s: unknown return section %s" % (s.where, what))
        if declared_returns is None:
            raise ExtractError("%s: a return anchor needs returns=N on the fn directive" % s.where)
        if k < 1 or k > len(rets):
            raise ExtractError("lost anchor: %s has %d return statements, contract names number %d (%s)" % (qual, len(rets), k, s.where))
        # only a `return` that is a statement of its own (first token after `{`, `;` or `}`) can take ghost text before it
        prev = m[:rets[k - 1]].rstrip()
        if not prev or prev[-1] not in "{;}":
            raise ExtractError("lost anchor: return %d of %s is not a statement of its own (%s)" % (k, qual, s.where))
        _lint_ghost_only(s.text, s.where)
        edits.append(Edit(rets[k - 1], "", s.text.rstrip() + "\n", "splice:S11"))

    loops = rs.find_loops(m, body_open, body_close)
    g.loops = len(loops)
    used = set()
    for s in d.sections:
        if s.kind != "loop":
            continue
        try:
            n = int(s.args[0])
        except (ValueError, IndexError):
            raise ExtractError("%s: bad loop ordinal" % s.where)
        if len(s.args) < 2:
            raise ExtractError("%s: loop section needs a kind (header|pre|post|before|after)" % s.where)
        what = s.args[1]
        if n < 1 or n > len(loops):
            raise ExtractError(
                "lost anchor: %s has %d loops, contract names loop %d (%s)" % (qual, len(loops), n, s.where)
            )
        kw, ks, lo, lc = loops[n - 1]
        used.add(n)
        if what == "header":
            declared = None
            for a in s.args[2:]:
                if a.startswith("kw="):
                    declared = a[3:]
            if declared and declared != kw:
                raise ExtractError("lost anchor: loop %d of %s is `%s`, contract expects `%s`" % (n, qual, kw, declared))
            it = None
            for a in s.args[2:]:
                if a.startswith("iter="):
                    it = a[5:]
            if it:
                if kw != "for":
                    raise ExtractError("%s: iter= on a non-for loop" % s.where)
                mi = re.compile(r"\bin\b").search(m, ks, lo)
                if not mi:
                    raise ExtractError("%s: no `in` in for header" % s.where)
                edits.append(Edit(mi.end(), "", " " + it + ":", "norm:N9"))
            edits.append(Edit(lo, "", "\n" + s.text.rstrip() + "\n", "splice:S3"))
        elif what == "pre":
            _lint_ghost_only(s.text, s.where)
            edits.append(Edit(lo + 1, "", "\n" + s.text.rstrip() + "\n", "splice:S4"))
        elif what == "post":
            _lint_ghost_only(s.text, s.where)
            edits.append(Edit(lc, "", s.text.rstrip() + "\n", "splice:S5"))
        elif what == "before":
            # S9: ghost text right before the loop statement (facts the loop's entry needs)
            _lint_ghost_only(s.text, s.where)
            edits.append(Edit(ks, "", s.text.rstrip() + "\n", "splice:S9"))
        elif what == "after":
            # S8: ghost text right after the loop's closing brace (facts the code after the loop needs)
            _lint_ghost_only(s.text, s.where)
            edits.append(Edit(lc + 1, "", "\n" + s.text.rstrip() + "\n", "splice:S8"))
        else:
            raise ExtractError("%s: unknown loop section %s" % (s.where, what))
    # S7: contracts on closures (n-th closure of the function): `//@@ closure N [ret=b]`.  The spliced
    # text is `-> (b: T)` naming plus requires/ensures; N12 wraps an expression body in braces.
    closures = None
    for s in d.sections:
        if s.kind != "closure":
            continue
        if closures is None:
            closures = rs.find_closures(m, body_open, body_close)
        try:
            n = int(s.args[0])
        except (ValueError, IndexError):
            raise ExtractError("%s: bad closure ordinal" % s.where)
        if n < 1 or n > len(closures):
            raise ExtractError("lost anchor: %s has %d closures, contract names closure %d (%s)" % (qual, len(closures), n, s.where))
        cs, pe, bs, be, is_block = closures[n - 1]
        rt = "bool"
        rn = "b"
        for a in s.args[1:]:
            if a.startswith("ret="):
                rn = a[4:]
            if a.startswith("type="):
                rt = a[5:]
        edits.append(Edit(pe + 1, "", " -> (" + rn + ": " + rt + ") " + " ".join(s.text.split()) + " ", "splice:S7"))
        if not is_block:
            edits.append(Edit(bs, "", "{ ", "norm:N12"))
            edits.append(Edit(be, "", " }", "norm:N12"))
        # N14: a tuple pattern in the parameter list of a closure that carries a contract (Verus accepts only plain
        # variables there): `|(a, b)| BODY` -> `|verif_arg| { let (a, b) = verif_arg; BODY }` - Rust's own
        # meaning of a pattern parameter.
        params = m[cs + 1 : pe]
        pm = re.match(r"^\((\w+), (\w+)\)$", params)
        if pm:
            edits.append(Edit(cs + 1, params, "verif_arg", "norm:N14"))
            edits.append(Edit(bs + (1 if is_block else 0), "", " let " + params + " = verif_arg; ", "norm:N14"))
        # ... and a reference pattern: `|&x| BODY` -> `|verif_arg| { let x = *verif_arg; BODY }` (x: Copy, as in N4)
        rm = re.match(r"^&(\w+)$", params)
        if rm:
            edits.append(Edit(cs + 1, params, "verif_arg", "norm:N14"))
            edits.append(Edit(bs + (1 if is_block else 0), "", " let " + rm.group(1) + " = *verif_arg; ", "norm:N14"))
    declared_closures = d.opt("closures")
    if declared_closures is not None:
        if closures is None:
            closures = rs.find_closures(m, body_open, body_close)
        if int(declared_closures) != len(closures):
            raise ExtractError("lost anchor: %s has %d closures, contract file says %s" % (qual, len(closures), declared_closures))

    # declared loop count (optional): //@ fn ... loops=N
    declared_loops = d.opt("loops")
    if declared_loops is not None and int(declared_loops) != len(loops):
        raise ExtractError(
            "lost anchor: %s has %d loops, contract file says %s (%s)" % (qual, len(loops), declared_loops, d.where)
        )

    # N4: `for &x in e {` -> `for verif_ref_x in e { let x = *verif_ref_x;`
    for kw, ks, lo, lc in loops:
        if kw != "for":
            continue
        mm = re.compile(r"for\s+&(\w+)\s+in\b").match(m, ks)
        if mm:
            x = mm.group(1)
            edits.append(Edit(mm.start(1) - 1, "&" + x, "verif_ref_" + x, "norm:N4"))
            edits.append(Edit(lo + 1, "", " let " + x + " = *verif_ref_" + x + ";", "norm:N4"))

    # N15: `for (i, &x) in A.iter().enumerate() {` -> `for i in 0..A.len() { let x = A[i];`   (x: Copy)
    #      `for (i, x) in A.iter().enumerate() {`  -> `for i in 0..A.len() { let x = &A[i];`
    # (A a place expression of Vec/slice type: it is borrowed for the whole loop in the original, so it cannot
    # change; same indices, same elements, same order.  vstd has no specification of Enumerate.)
    #      `for (i, x) in A.iter().enumerate().skip(C) {` -> `for i in C..A.len() { let x = &A[i];`   (C an identifier,
    #      evaluated once at loop entry in both forms; the original yields (i, &A[i]) for C <= i < A.len())
    #      `for (i, x) in A.iter_mut().enumerate() {` -> `for i in 0..A.len() { let x = &mut A[i];`   (the loop holds the only
    #      borrow of A in the original, so its length cannot change; same indices, same elements, same order)
    n15 = re.compile(r"for\s+(\((\w+), (&?)(\w+)\))\s+in\s+((\w+(?:\.\w+)*)\s*\.iter(_mut)?\(\)\s*\.enumerate\(\)(?:\s*\.skip\((\w+)\))?)\s*\{")
    for kw, ks, lo, lc in loops:
        if kw != "for":
            continue
        mm = n15.match(m, ks)
        if mm and mm.end() - 1 == lo:
            idx, amp, x, place = mm.group(2), mm.group(3), mm.group(4), mm.group(6)
            edits.append(Edit(mm.start(1), text[mm.start(1) : mm.end(1)], idx, "norm:N15"))
            edits.append(Edit(mm.start(5), text[mm.start(5) : mm.end(5)], (mm.group(8) or "0") + ".." + place + ".len()", "norm:N15"))
            # (the `&mut` element borrow goes after a loop-body prologue, which may still want to read A)
            edits.append(Edit(lo + 1, "", " let " + x + " = " + ("" if amp else ("&mut " if mm.group(7) else "&")) + place + "[" + idx + "];", "norm:N15m" if mm.group(7) else "norm:N15"))

    # N18: `for (k, v) in M {` over a HashMap taken by value -> `let verif_entries = verif_map_into_vec(M); for verif_pair in verif_entries { let (k, v) = verif_pair;`
    # (the entries, each once, in the map's unspecified order - which is all the original promises too; vstd has no
    # specification of HashMap's IntoIter).  Opt-in per function: `mapiter=NAME` names the map.
    mapiter = d.opt("mapiter")
    if mapiter:
        n18 = re.compile(r"for\s+(\((\w+), (\w+)\))\s+in\s+(" + re.escape(mapiter) + r")\s*\{")
        hit = False
        for kw, ks, lo, lc in loops:
            if kw != "for":
                continue
            mm = n18.match(m, ks)
            if mm and mm.end() - 1 == lo:
                hit = True
                edits.append(Edit(ks, "", "let verif_entries = verif_map_into_vec(" + mapiter + "); ", "norm:N18"))
                edits.append(Edit(mm.start(1), text[mm.start(1) : mm.end(1)], "verif_pair", "norm:N18"))
                edits.append(Edit(mm.start(4), text[mm.start(4) : mm.end(4)], "verif_entries", "norm:N18"))
                edits.append(Edit(lo + 1, "", " let (" + mm.group(2) + ", " + mm.group(3) + ") = verif_pair;", "norm:N18"))
        if not hit:
            raise ExtractError("lost anchor: %s has no `for (k, v) in %s {` loop (%s)" % (qual, mapiter, d.where))

    # N16: a reference pattern inside `if let Some(&x) = E {` (Verus has no ref patterns):
    #      -> `if let Some(verif_ref_x) = E { let x = *verif_ref_x;`   (x: Copy, as in N4)
    for mm in re.finditer(r"\bif\s+let\s+Some\(&(\w+)\)\s*=", m[:body_close]):
        if mm.start() < body_open:
            continue
        try:
            o = rs.find_body_open(m, mm.end())
        except rs.ScanError:
            continue
        x = mm.group(1)
        edits.append(Edit(mm.start(1) - 1, "&" + x, "verif_ref_" + x, "norm:N16"))
        edits.append(Edit(o + 1, "", " let " + x + " = *verif_ref_" + x + ";", "norm:N16"))

    # N17: a two-arm match whose first arm is guarded and whose second arm is `_ => return ..`:
    #      `PAT if G => A, _ => RET,`  ->  `PAT => if G { A } else { RET }, _ => RET,`
    # (Rust tries the guard only when PAT matches and falls through to `_` when it is false: the same RET runs.  This
    # Verus forgets everything about a `&mut` place on the fall-through arm of a guarded match - §3.6.)
    n17 = re.compile(r"(\b\w[\w:]*\((?:mut\s+)?\w+\))( if ([^\n]+?) => ([^\n]+?),)(\s*)_ => (return(?: [^\n,]+)?),(\s*)\}")
    for mm in n17.finditer(m, body_open, body_close):
        g_, a_, ret = text[mm.start(3) : mm.end(3)], text[mm.start(4) : mm.end(4)], text[mm.start(6) : mm.end(6)]
        edits.append(Edit(mm.start(2), text[mm.start(2) : mm.end(2)], " => if " + g_ + " { " + a_ + " } else { " + ret + " },", "norm:N17"))

    edits.extend(norm_macros(text, m, strip_paths))
    edits.extend(norm_closure_underscore(text, m))
    edits.extend(norm_iter_chains(text, m, body_open, body_close))
    edits.extend(norm_let_chains(text, m, body_open, body_close))
    macro_spans = [(x.off, x.off + len(x.old)) for x in edits if x.kind in ("norm:N1", "norm:N2")]
    for pe in norm_paths(text, m, strip_paths):
        if any(a <= pe.off < b for a, b in macro_spans):
            continue
        edits.append(pe)

    # edits inside a rewritten macro span (e.g. |_| inside format!) are dropped
    final = []
    for x in edits:
        if x.kind not in ("norm:N1", "norm:N2") and any(a <= x.off < b for a, b in macro_spans):
            continue
        final.append(x)
    # merge multiple zero-width insertions at the same offset deterministically by kind order
    order = {"splice:S5": 0, "splice:S6": 0, "norm:N7": 1, "splice:S1": 2, "splice:S3": 2, "norm:N9": 2, "splice:S2": 3, "norm:N4": 3, "splice:S4": 4, "splice:S7": 2, "norm:N12": 3, "norm:N13": 1, "norm:N14": 4, "norm:N15": 3, "norm:N15m": 6, "norm:N16": 3, "norm:N18": 3}
    final.sort(key=lambda x: (x.off, 0 if x.old == "" else 1, order.get(x.kind, 5)))
    out, placed = apply_edits(text, final)
    if erase(out, placed) != text:
        raise ExtractError("erasure self-check failed for " + qual)
    g.out = out
    g.edits = final
    for x in final:
        g.norm_counts[x.kind] = g.norm_counts.get(x.kind, 0) + 1
    return g


# ----------------------------------------------------------------------------------------------
# item cuts


def gen_cut(d, strip_paths):
    kind, name = d.args[0], d.args[1]
    rel = d.args[d.args.index("from") + 1]
    S = Source.get(rel)
    items = rs.find_items(S.src, S.mask, kind, name, 0, None, 0)
    if len(items) != 1:
        raise ExtractError("lost anchor: %s %s in %s: %d candidates (%s)" % (kind, name, rel, len(items), d.where))
    it = items[0]
    text = S.src[it.start : it.end]
    m = S.mask[it.start : it.end]
    edits = []
    dropped = []
    keep = d.opt("keep")
    if keep is not None and kind == "enum":
        # N10 for enums: variants not on the keep-list are dropped (a function that constructs or matches a dropped variant
        # no longer compiles -> exit 2, so nothing that is verified depends on them)
        if it.header_end is None:
            raise ExtractError("%s: keep= needs a braced enum" % d.where)
        keepset = set(keep.split(","))
        bo = it.header_end - it.start
        body = text[bo + 1 : len(text) - 1]
        mbody = m[bo + 1 : len(text) - 1]
        pos = 0
        seen = set()
        for part in _split_fields(body, mbody):
            mpart = mbody[pos : pos + len(part)]
            vm = re.search(r"(?:#\[[^\]]*\]\s*)*([A-Za-z_]\w*)", mpart)
            if vm:
                vname = vm.group(1)
                seen.add(vname)
                if vname not in keepset:
                    endp = pos + len(part)
                    if endp < len(body) and body[endp] == ",":
                        endp += 1
                    edits.append(Edit(bo + 1 + pos, body[pos:endp], "", "norm:N10"))
                    dropped.append(vname)
            pos += len(part) + 1
        missing = keepset - seen
        if missing:
            raise ExtractError("lost anchor: enum %s lacks kept variant(s) %s" % (name, sorted(missing)))
        keep = None
    if keep is not None:
        if kind != "struct" or it.header_end is None:
            raise ExtractError("%s: keep= needs a braced struct" % d.where)
        keepset = set(keep.split(","))
        bo = it.header_end - it.start
        # fields: split top-level commas of the body
        body = text[bo + 1 : len(text) - 1]
        mbody = m[bo + 1 : len(text) - 1]
        pos = 0
        seen = set()
        for part in _split_fields(body, mbody):
            mpart = mbody[pos : pos + len(part)]
            fm = re.search(r"(?:pub(?:\([a-z ]+\))?\s+)?(\w+)\s*:", mpart)
            if fm:
                fname = fm.group(1)
                seen.add(fname)
                if fname not in keepset:
                    # drop the field including its trailing comma
                    endp = pos + len(part)
                    if endp < len(body) and body[endp] == ",":
                        endp += 1
                    edits.append(Edit(bo + 1 + pos, body[pos:endp], "", "norm:N10"))
                    dropped.append(fname)
            pos += len(part) + 1
        missing = keepset - seen
        if missing:
            raise ExtractError("lost anchor: struct %s lacks kept field(s) %s" % (name, sorted(missing)))
    if kind == "struct" and it.header_end is not None and d.opt("vis") != "keep":
        # N11: field visibility -> pub (visibility has no run-time meaning; Verus needs it for specs)
        bo = it.header_end - it.start
        body = text[bo + 1 : len(text) - 1]
        mbody = m[bo + 1 : len(text) - 1]
        pos = 0
        for part in _split_fields(body, mbody):
            mpart = mbody[pos : pos + len(part)]
            fm = re.search(r"(pub(?:\([a-z ]+\))?\s+)?(\w+)\s*:", mpart)
            if fm and not any(e.off <= bo + 1 + pos + fm.start() < e.off + len(e.old) for e in edits):
                vis = fm.group(1) or ""
                if vis.strip() != "pub":
                    edits.append(Edit(bo + 1 + pos + fm.start(), vis, "pub ", "norm:N11"))
            pos += len(part) + 1
    extra = d.opt("extra")
    if extra:
        edits.append(Edit(len(text) - 1, "", extra + "\n", "splice:extra-field"))
    # inner attributes like #[serde(...)] on fields/variants
    for mm in re.finditer(r"(?m)^[ \t]*#\[(serde|allow|doc)\b[^\n]*\]\n", text):
        if not any(e.off <= mm.start() < e.off + len(e.old) for e in edits):
            edits.append(Edit(mm.start(), mm.group(0), "", "norm:N6"))
    for pe in norm_paths(text, m, strip_paths):
        if not any(e.off <= pe.off < e.off + len(e.old) for e in edits):
            edits.append(pe)
    out, placed = apply_edits(text, edits)
    if erase(out, placed) != text:
        raise ExtractError("erasure self-check failed for %s %s" % (kind, name))
    derive = d.opt("derive", "")
    attr = ""
    if derive:
        have = set()
        for a in it.attrs:
            mm = re.match(r"#\[derive\((.*)\)\]", a)
            if mm:
                have |= {x.strip() for x in mm.group(1).split(",")}
        want = [x for x in derive.split(",") if x in have]
        if want:
            attr = "#[derive(" + ", ".join(want) + ")]\n"
    info = {
        "item": "%s %s" % (kind, name),
        "file": rel,
        "lines": [rs.line_of(S.src, it.start), rs.line_of(S.src, it.end)],
        "sha256": hashlib.sha256(text.encode()).hexdigest(),
        "dropped_fields": dropped,
        "dropped_attrs": [a for a in it.attrs if not a.startswith("#[derive") or True],
    }
    return attr + out + "\n", info, edits


# ----------------------------------------------------------------------------------------------
# unit generation


class GenUnit:
    def __init__(self, name):
        self.name = name
        self.text = ""
        self.fns = []  # dicts: qual, obligation, out_start, out_end, file, lines, sha256, has_contract...
        self.cuts = []
        self.imports = []  # (qual, home)
        self.assumed = []  # (qual, reason)
        self.raw_ranges = []
        self.import_ranges = []
        self.fn_infra = []
        self.norm_counts = {}
        self.trusted_scan = []


def generate(unit, vacuity=False, only=None, force_stub=None):
    """force_stub: {qual: reason} - functions whose extracted text Verus rejected (a construct outside the dialect);
    they are emitted as stubs carrying their contract and reported as undecided, like a lost anchor."""
    force_stub = force_stub or {}
    Source.reset()
    dirs = parse_vspec(unit_path(unit))
    gu = GenUnit(unit)
    strip = []
    chunks = []
    pos = 0

    def emit(s):
        nonlocal pos
        chunks.append(s)
        pos += len(s)

    for d in dirs:
        if d.kind == "unit":
            continue
        if d.kind == "strip-paths":
            strip.extend(d.args)
        elif d.kind == "raw":
            a = pos
            emit(d.text)
            gu.raw_ranges.append((a, pos, d.where))
        elif d.kind == "cut":
            out, info, edits = gen_cut(d, strip)
            emit(out)
            gu.cuts.append(info)
            for x in edits:
                gu.norm_counts[x.kind] = gu.norm_counts.get(x.kind, 0) + 1
        elif d.kind == "open":
            emit(" ".join(d.args) + " {\n")
        elif d.kind == "close":
            emit("}\n")
        elif d.kind == "fn":
            try:
                if d.args[0] in force_stub:
                    raise ExtractError("outside the dialect: " + force_stub[d.args[0]])
                g = gen_fn(d, strip, "verify", vacuity=vacuity)
            except ExtractError as e:
                # a lost anchor / dialect escape in ONE function must not take the unit down: the function is
                # emitted as a stub carrying its contract (so that its callers are still checked against it) and
                # is reported as undecided
                c = d.section("contract")
                try:
                    g = gen_fn(d, strip, "stub", contract_text=c.text if c else "")
                except ExtractError:
                    raise e
                a = pos
                emit(g.out + "\n\n")
                gu.import_ranges.append((a, pos))
                gu.fn_infra.append({"qual": g.qual, "obligation": unit + "::" + g.qual, "reason": str(e), "file": g.file, "lines": [g.line_start, g.line_end], "sha256": g.sha256})
                continue
            a = pos
            if d.opt("rlimit"):
                # a verifier attribute (solver budget), not executable text
                emit("#[verifier::rlimit(%d)]\n" % int(d.opt("rlimit")))
            if d.opt("isolation") == "off":
                # loops see the facts established before them (a proof-engineering knob, like rlimit; no runtime meaning)
                emit("#[verifier::loop_isolation(false)]\n")
            emit(g.out + "\n\n")
            gu.fns.append(
                {
                    "qual": g.qual,
                    "obligation": unit + "::" + g.qual,
                    "out_start": a,
                    "out_end": pos,
                    "file": g.file,
                    "lines": [g.line_start, g.line_end],
                    "sha256": g.sha256,
                    "has_contract": g.has_contract,
                    "loops": g.loops,
                    "contract": (d.section("contract").text.strip() if d.section("contract") else ""),
                    "class": d.opt("class", ""),
                    "edits": [(x.off, x.kind, x.old[:60], x.new[:60]) for x in g.edits if x.kind.startswith("norm")],
                }
            )
            for k, v in g.norm_counts.items():
                gu.norm_counts[k] = gu.norm_counts.get(k, 0) + v
        elif d.kind == "import":
            home = d.opt("home")
            hd = find_fn_directive(home, d.args[0])
            hc = hd.section("contract")
            # ret name must agree with the home unit
            d2 = Directive("fn", list(d.args), d.where)
            if hd.opt("ret") and not d.opt("ret"):
                d2.args.append("ret=" + hd.opt("ret"))
            g = gen_fn(d2, strip, "stub", contract_text=hc.text if hc else "")
            a = pos
            emit(g.out + "\n")
            gu.import_ranges.append((a, pos))
            gu.imports.append({"qual": d.args[0], "home": home, "file": g.file, "lines": [g.line_start, g.line_end]})
        elif d.kind == "assume":
            c = d.section("contract")
            g = gen_fn(d, strip, "stub", contract_text=c.text if c else "")
            emit(g.out + "\n")
            gu.assumed.append({"qual": d.args[0], "reason": d.opt("reason", ""), "contract": c.text.strip() if c else ""})
        else:
            raise ExtractError("%s: unknown directive %s" % (d.where, d.kind))
    gu.text = "".join(chunks)
    # everything assumed rather than proved; stubs of imported contracts are proved in their home unit
    gu.trusted_scan = [d for off, d in scan_trusted(gu.text) if not any(a <= off < b for a, b in gu.import_ranges)]
    return gu


_TRUST = re.compile(
    r"(#\[verifier::external_body\]|#\[verifier::external\b[^\]]*\]|assume_specification|\bassume\s*\(|\badmit\s*\(|exec_allows_no_decreases_clause|#\[verifier::external_type_specification\]|\buninterp\s+spec\s+fn|\baxiom\s+fn|global\s+size_of)"
)


def scan_trusted(text):
    """Mechanical scan of the generated file for everything that is assumed rather than proved."""
    m = rs.mask(text)
    res = []
    for mm in _TRUST.finditer(m):
        # describe by the next item header
        tail = text[mm.end() : mm.end() + 400]
        hm = re.search(r"(?:pub\s+)?(?:fn|struct|enum)\s+([\w:<>,& ]+?)\s*[\(<{]|\[([^\]]+)\]|spec\s+fn\s+(\w+)", tail)
        what = mm.group(1)
        if what.startswith("global"):
            res.append((mm.start(), "global size_of usize == 8 (A-arch)"))
            continue
        name = ""
        if what == "assume_specification":
            k = tail.find(" [")
            name = ""
            if k >= 0:
                d = 0
                for j in range(k + 1, len(tail)):
                    if tail[j] == "[":
                        d += 1
                    elif tail[j] == "]":
                        d -= 1
                        if d == 0:
                            name = tail[k + 2 : j].strip()
                            break
        elif what.startswith("uninterp"):
            name = re.match(r"\s*(\w+)", tail).group(1)
        elif hm:
            name = (hm.group(1) or hm.group(2) or hm.group(3) or "").strip()
        res.append((mm.start(), "%s %s" % (what, name)))
    return res
