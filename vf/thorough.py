"""Thorough tier: vacuity pass, sensitivity self-test, solver-seed stability pass, and (for the builtin
properties) the boundary differential on the real code."""
import os
import time

from . import extract, mutants, runner

BUILTIN_UNITS = ("rope", "builtins_binary", "builtins_integer", "builtins_vector")


def vacuity(units):
    """`proof { assert(false); }` is injected at the start of every function body: the assertion must
    FAIL everywhere.  One that verifies means the function's preconditions are contradictory."""
    res = runner.run_units(units, vacuity=True)
    reachable = 0
    vacuous = []
    total = 0
    undecided = []
    for u in units:
        r = res[u]
        for x in r.infra:
            if "prelude/lemma" not in x:
                undecided.append("vacuity pass, %s: %s" % (u, x))
        for oid, ob in r.obligations.items():
            if ob["kind"] != "fn":
                continue
            total += 1
            hit = any(f["class"] == "proof-internal" and "assertion failed" in f["message"] and "false" in (f.get("expr") or "") for f in ob["failures"])
            if hit:
                reachable += 1
            else:
                vacuous.append(oid)
    return {"functions": total, "reachable": reachable, "vacuous": vacuous}, undecided


def stability(units, seeds):
    flips = []
    runs = 0
    for s in seeds:
        res = runner.run_units(units, extra_flags=("--smt-option", "smt.random_seed=%d" % s), tag="_seed%d" % s)
        for u in units:
            r = res[u]
            runs += 1
            for oid, ob in r.obligations.items():
                if ob["kind"] == "fn" and ob["status"] not in ("ok",):
                    flips.append({"obligation": oid, "seed": s, "status": ob["status"], "first": (ob["failures"][0]["message"] if ob["failures"] else "")})
    return {"seeds": list(seeds), "unit_runs": runs, "not_ok_under_some_seed": flips}


def run(prop, units, results, seed):
    t0 = time.time()
    cov = {}
    undecided = []
    violations = []
    vac, und = vacuity(units)
    cov["vacuity"] = vac
    undecided.extend(und)
    for oid in vac["vacuous"]:
        # known verifier-limit functions fail elsewhere first only if the assert does not; treat as undecided
        undecided.append("vacuity pass: the injected assert(false) did not fail in %s (contradictory precondition?)" % oid)
    ms = mutants.run(units=set(units))
    killed = [m for m in ms if m["status"] == "killed"]
    cov["sensitivity"] = {
        "mutants": len(ms),
        "killed": len(killed),
        "survived": [m["id"] for m in ms if m["status"] == "survived"],
        "other": [{"id": m["id"], "status": m["status"], "note": m.get("note", "")} for m in ms if m["status"] not in ("killed", "survived")],
        "note": "seeded semantic mutations applied to a scratch copy of quiver-core/src; a survivor is a contract weakness or an equivalent mutant, never a violation",
    }
    base = int(seed) * 7 + 11
    cov["stability"] = stability(units, [base, base + 1, base + 2])
    if prop == "C12":
        try:
            from . import cesearch

            rep = cesearch.grid(list(cesearch.BUILTINS.keys()), seed, cap=250)
            cov["boundary_differential"] = {
                "bounded": True,
                "calls_on_real_code": rep["calls"],
                "distinct_inputs": rep["distinct_inputs"],
                "disagreements": sum(v["disagreements"] for v in rep["per_builtin"].values()),
                "per_builtin": rep["per_builtin"],
                "rule": "every builtin x boundary grid (0, +-1, 2^31, 2^32, 2^61, 2^63, 2^64-1, beyond; empty/odd/9-byte binaries) x six rope shapes of equal content, compared with a plain Python model; BOUNDED, never counted as proved; it is the stand-in for the iterator-style builtins outside the Verus dialect (binary_and/not/popcount/hash32/hash64, vector_take) and a validation of the contracts' reference models for the rest",
            }
            for d in rep["disagreements"]:
                violations.append(d)
        except Exception as e:  # build problems are infrastructure, never alarms
            undecided.append("boundary differential could not run: %r" % (e,))
    if prop == "C06":
        try:
            from . import cesearch

            tr = cesearch.transfer_grid()
            cov["transfer_differential"] = {"bounded": True, "values": tr["calls"], "disagreements": len(tr["disagreements"]),
                                            "rule": "structured values (nested tuples, closures with captures, binaries of several rope shapes, shared binaries) built in one heap, extract_heap_data, inject_heap_data into another populated heap on the REAL code; both ends must render identically and the receiver's own binaries stay untouched; BOUNDED, a validation of the transfer contracts' reading of the code and the stand-in when unit transfer is undecided"}
            for d in tr["disagreements"]:
                violations.append(d)
        except Exception as e:
            undecided.append("transfer differential could not run: %r" % (e,))
    if prop in ("C05", "C06", "C13", "C15", "C16"):
        try:
            from . import progsearch

            rep = progsearch.search(prop)
            cov["program_corpus"] = {
                "bounded": True,
                "programs_run_on_real_binary": rep["runs"],
                "failures": len(rep["failures"]),
                "rule": "a small fixed corpus of Quiver programs run on quiv built from /repo's working tree: "
                + ("tail-recursive shapes at N=40 and N=2000, results and peak frames/locals/stack must agree (only the main process's peaks are visible through `quiv run --profile`)" if prop == "C16" else "pinned matches between integers, binaries (literal / concat / slice / repeat / zero-filled), labelled and nested tuples, closures with captures and refs built in different ways must give the verdict structural equality gives" if prop == "C13" else "selects over finished / unfinished processes, elapsed / pending timeouts, body-less and filtering receivers with messages queued in a known order must yield what written-order priority, first-admissible-message and verdict-only filters prescribe, and leave the other messages receivable in their order; one timeout must not fire before its duration" if prop == "C05" else "processes that fail (a partial builtin, an effect on a closed resource, inside a receive filter) with awaiters before, after and two levels up, and bystanders that must still run to their results; plus the C06 corpus, because a drifting count is a debug-build worker panic" if prop == "C15" else "binaries shared, sliced, captured, spawned, sent and selected must read back the expected bytes; a debug build also runs check_refcounts at every process completion")
                + "; BOUNDED smoke evidence and a source of concrete failing programs, never counted as proved",
            }
            for f in rep["failures"]:
                violations.append({"builtin": "program:" + f["program"], "args": [f["source"]], "rope_shape": "-", "expected": ["see why"], "observed": {"why": f["why"]}, "call": None})
        except Exception as e:
            undecided.append("program corpus could not run: %r" % (e,))
    cov["thorough_wall_s"] = round(time.time() - t0, 1)
    return {"coverage": cov, "undecided": undecided, "violations": violations}
