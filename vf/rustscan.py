"""Small Rust-aware scanner: enough lexical knowledge (strings, raw strings, char literals vs
lifetimes, line and block comments) to match braces and find items by name in rustfmt-formatted
source.  No Rust parser is needed; everything here works on a *mask* of the source in which
comment bodies, string contents and char literals are blanked out (same length, newlines kept),
so offsets in the mask are offsets in the source."""
import re


class ScanError(Exception):
    pass


def mask(src: str) -> str:
    out = list(src)
    n = len(src)
    i = 0

    def blank(a, b):
        for k in range(a, b):
            if out[k] != "\n":
                out[k] = " "

    while i < n:
        c = src[i]
        if c == "/" and i + 1 < n and src[i + 1] == "/":
            j = src.find("\n", i)
            if j < 0:
                j = n
            blank(i, j)
            i = j
        elif c == "/" and i + 1 < n and src[i + 1] == "*":
            depth = 1
            j = i + 2
            while j < n and depth > 0:
                if src.startswith("/*", j):
                    depth += 1
                    j += 2
                elif src.startswith("*/", j):
                    depth -= 1
                    j += 2
                else:
                    j += 1
            blank(i, j)
            i = j
        elif c == '"' or (c in "rb" and _raw_or_byte_string_at(src, i)):
            j = _string_end(src, i)
            # keep the quotes' positions non-blank so that tokens do not merge: blank the inside
            blank(i, j)
            out[i] = '"'
            out[j - 1] = '"'
            i = j
        elif c == "'":
            # char literal or lifetime
            j = _char_end(src, i)
            if j is not None:
                blank(i, j)
                out[i] = "'"
                out[j - 1] = "'"
                i = j
            else:
                i += 1
        else:
            i += 1
    return "".join(out)


def _raw_or_byte_string_at(src, i):
    if i > 0 and (src[i - 1].isalnum() or src[i - 1] == "_"):
        return False
    m = re.compile(r'(?:b?r#*"|b")').match(src, i)
    return m is not None


def _string_end(src, i):
    n = len(src)
    m = re.compile(r'b?r(#*)"').match(src, i)
    if m:
        closer = '"' + m.group(1)
        j = src.find(closer, m.end())
        if j < 0:
            raise ScanError("unterminated raw string")
        return j + len(closer)
    if src[i] == "b":
        i += 1
    j = i + 1
    while j < n:
        if src[j] == "\\":
            j += 2
        elif src[j] == '"':
            return j + 1
        else:
            j += 1
    raise ScanError("unterminated string")


def _char_end(src, i):
    # 'x'  '\n'  '\u{1F600}'  '\''   versus lifetime 'a
    n = len(src)
    if i + 2 < n and src[i + 1] == "\\":
        j = i + 2
        while j < n and src[j] != "'":
            j += 1
        # '\'' : the escaped quote
        if src[i + 2] == "'" and i + 3 < n and src[i + 3] == "'":
            return i + 4
        return j + 1
    if i + 2 < n and src[i + 2] == "'" and src[i + 1] != "'":
        return i + 3
    # multi-byte char literal e.g. 'é' is one code point in Python str, handled above
    return None


OPEN = {"{": "}", "(": ")", "[": "]"}


def match_close(m: str, i: int) -> int:
    """m: masked source, i: index of an opening bracket. Returns index of its closer."""
    o = m[i]
    c = OPEN[o]
    depth = 0
    n = len(m)
    k = i
    while k < n:
        ch = m[k]
        if ch == o:
            depth += 1
        elif ch == c:
            depth -= 1
            if depth == 0:
                return k
        k += 1
    raise ScanError("unbalanced %s at %d" % (o, i))


def depth_at(m: str, upto: int, start: int = 0) -> int:
    d = 0
    for ch in m[start:upto]:
        if ch == "{":
            d += 1
        elif ch == "}":
            d -= 1
    return d


def line_of(src: str, off: int) -> int:
    return src.count("\n", 0, off) + 1


def find_body_open(m: str, start: int) -> int:
    """First '{' at ()/[] depth 0 at or after start (used for fn headers and loop headers).
    Angle brackets are ignored on purpose ('<' is also an operator)."""
    d = 0
    k = start
    n = len(m)
    while k < n:
        ch = m[k]
        if ch in "([":
            d += 1
        elif ch in ")]":
            d -= 1
        elif ch == "{" and d == 0:
            return k
        elif ch == ";" and d == 0:
            raise ScanError("item without body at %d" % start)
        k += 1
    raise ScanError("no body found from %d" % start)


class Item:
    def __init__(self, kind, name, start, end, header_end, attrs, attrs_start):
        self.kind = kind
        self.name = name
        self.start = start  # offset of the item header (after attributes/doc comments)
        self.end = end  # offset one past the closing brace / semicolon
        self.header_end = header_end  # offset of the opening '{' of the body (fn/struct/enum/impl)
        self.attrs = attrs  # list of attribute strings directly above
        self.attrs_start = attrs_start


_VIS = r"(?:pub(?:\([a-z ]+\))?\s+)?"


def _attrs_above(src, m, start):
    """Collect `#[...]` attribute lines directly above `start` (skipping doc/line comments)."""
    attrs = []
    pos = start
    first = start
    while True:
        ls = src.rfind("\n", 0, pos - 1) + 1 if pos > 0 else 0
        if pos == 0:
            break
        prev_end = src.rfind("\n", 0, pos)
        if prev_end < 0:
            break
        prev_start = src.rfind("\n", 0, prev_end) + 1
        line = src[prev_start:prev_end]
        st = line.strip()
        if st.startswith("#["):
            # possibly multi-line attribute: only single-line handled (rustfmt keeps derives on one
            # line unless very long); a multi-line one ends with ']' on a later line.
            attrs.insert(0, st)
            first = prev_start
            pos = prev_start
        elif st.startswith("///") or st.startswith("//"):
            pos = prev_start
        elif st.endswith(")]") or st.endswith("]"):
            # maybe the tail of a multi-line attribute; walk up to its '#['
            k = prev_start
            buf = [st]
            ok = False
            while k > 0:
                pe = k - 1
                ps = src.rfind("\n", 0, pe) + 1
                l2 = src[ps:pe].strip()
                buf.insert(0, l2)
                k = ps
                if l2.startswith("#["):
                    ok = True
                    break
                if not l2 or l2.endswith(";") or l2.endswith("}"):
                    break
            if ok:
                attrs.insert(0, " ".join(buf))
                first = k
                pos = k
            else:
                break
        else:
            break
    return attrs, first


def find_items(src: str, m: str, kind: str, name: str, lo: int = 0, hi: int = None, depth: int = 0):
    """All items of `kind` named `name` whose header sits at brace depth `depth` relative to lo."""
    if hi is None:
        hi = len(src)
    if kind == "fn":
        pat = re.compile(
            r"(?m)^[ \t]*" + _VIS + r"(?:const\s+)?(?:unsafe\s+)?fn\s+" + re.escape(name) + r"\b"
        )
    elif kind in ("struct", "enum", "trait"):
        pat = re.compile(r"(?m)^[ \t]*" + _VIS + kind + r"\s+" + re.escape(name) + r"\b")
    elif kind in ("const", "static"):
        pat = re.compile(r"(?m)^[ \t]*" + _VIS + kind + r"\s+" + re.escape(name) + r"\s*:")
    elif kind == "type":
        pat = re.compile(r"(?m)^[ \t]*" + _VIS + r"type\s+" + re.escape(name) + r"\b")
    else:
        raise ScanError("unknown item kind " + kind)
    found = []
    for mm in pat.finditer(m, lo, hi):
        s = mm.start()
        # skip leading whitespace
        while m[s] in " \t":
            s += 1
        if depth_at(m, s, lo) != depth:
            continue
        if kind in ("const", "static", "type"):
            e = m.index(";", s) + 1
            he = None
        elif kind == "struct":
            # unit / tuple struct or braced struct
            k = s
            while m[k] not in "{;(":
                k += 1
            if m[k] == "{":
                he = k
                e = match_close(m, k) + 1
            elif m[k] == "(":
                he = None
                e = m.index(";", match_close(m, k)) + 1
            else:
                he = None
                e = k + 1
        else:
            he = find_body_open(m, s)
            e = match_close(m, he) + 1
        attrs, astart = _attrs_above(src, m, s)
        found.append(Item(kind, name, s, e, he, attrs, astart))
    return found


_IMPL = re.compile(r"(?m)^impl\b")


def find_impls(src: str, m: str):
    """All top-level impl blocks: list of (header_text, self_type_ident, trait_ident|None, open, close)."""
    res = []
    for mm in _IMPL.finditer(m):
        s = mm.start()
        try:
            o = find_body_open(m, s)
        except ScanError:
            continue
        c = match_close(m, o)
        header = " ".join(src[s:o].split())
        h = header[4:].strip()
        # strip leading generics
        if h.startswith("<"):
            d = 0
            for k, ch in enumerate(h):
                if ch == "<":
                    d += 1
                elif ch == ">":
                    d -= 1
                    if d == 0:
                        h = h[k + 1 :].strip()
                        break
        trait = None
        mfor = re.search(r"\sfor\s", h)
        if mfor:
            trait = re.match(r"[\w:]+", h).group(0).split("::")[-1]
            h = h[mfor.end() :].strip()
        ty = re.match(r"&?\s*(?:'\w+\s+)?(?:mut\s+)?([\w:]+)", h)
        tyname = ty.group(1).split("::")[-1] if ty else h
        res.append((header, tyname, trait, o, c))
    return res


def find_fn(src: str, m: str, qualname: str):
    """qualname: `name` (free fn at depth 0), `Type::name`, or `Trait for Type::name`."""
    trait = None
    q = qualname
    mfor = re.match(r"(\w+)\s+for\s+(.*)$", q)
    if mfor:
        trait = mfor.group(1)
        q = mfor.group(2)
    if "::" in q:
        ty, name = q.rsplit("::", 1)
        cands = []
        for header, tyname, tr, o, c in find_impls(src, m):
            if tyname != ty:
                continue
            if trait is not None and tr != trait:
                continue
            for it in find_items(src, m, "fn", name, o + 1, c, 0):
                cands.append((it, header))
        if len(cands) != 1:
            raise ScanError("fn %s: %d candidates" % (qualname, len(cands)))
        return cands[0]
    cands = find_items(src, m, "fn", q, 0, None, 0)
    if len(cands) != 1:
        raise ScanError("fn %s: %d candidates" % (qualname, len(cands)))
    return cands[0], None


_LOOP = re.compile(r"\b(for|while|loop)\b")


def find_loops(m: str, body_open: int, body_close: int):
    """Loops inside a function body in source order.  Each: (kw, kw_start, open_brace, close_brace)."""
    loops = []
    for mm in _LOOP.finditer(m, body_open, body_close):
        kw = mm.group(1)
        s = mm.start()
        # `for` in `impl X for Y` or HRTB `for<'a>` cannot occur in a body except `for<`; skip that
        rest = m[mm.end() : mm.end() + 1]
        if kw == "for" and rest == "<":
            continue
        # preceded by '.' or part of an identifier -> not a keyword use
        prev = m[s - 1] if s > 0 else " "
        if prev == "." or prev == "_" or prev.isalnum():
            continue
        try:
            o = find_body_open(m, mm.end())
        except ScanError:
            continue
        if o >= body_close:
            continue
        c = match_close(m, o)
        loops.append((kw, s, o, c))
    return loops


def find_closures(m: str, body_open: int, body_close: int):
    """Closures inside a function body in source order: (start, params_end, body_start, body_end, is_block).
    Lexical heuristic for rustfmt-formatted code: a `|` that follows `(`, `,`, `=` or `move`/`return`
    opens a closure parameter list (an or-pattern or a bit-or always follows an operand)."""
    res = []
    k = body_open + 1
    while k < body_close:
        if m[k] != "|":
            k += 1
            continue
        # previous significant char
        j = k - 1
        while j > body_open and m[j] in " \t\n":
            j -= 1
        prev = m[j]
        word = re.search(r"(\w+)$", m[max(body_open, j - 10) : j + 1])
        is_start = prev in "(,=" or (word is not None and word.group(1) in ("move", "return"))
        if prev == "=" and j > 0 and m[j - 1] in "|&^<>!=+-*/%":
            is_start = False  # compound assignment like |=
        if not is_start:
            k += 1
            if k < body_close and m[k] == "|":
                k += 1
            continue
        if m[k + 1] == "|":
            pe = k + 1
        else:
            pe = k + 1
            d = 0
            while pe < body_close:
                ch = m[pe]
                if ch in "([<":
                    d += 1
                elif ch in ")]>":
                    d -= 1
                elif ch == "|" and d <= 0:
                    break
                pe += 1
        b = pe + 1
        while b < body_close and m[b] in " \t\n":
            b += 1
        if m[b] == "{":
            e = match_close(m, b) + 1
            res.append((k, pe, b, e, True))
            k = b + 1  # nested closures inside the block are found too
            continue
        # expression body: up to the first depth-0 `,` or the closing bracket of the enclosing call
        d = 0
        e = b
        while e < body_close:
            ch = m[e]
            if ch in "([{":
                d += 1
            elif ch in ")]}":
                if d == 0:
                    break
                d -= 1
            elif ch == "," and d == 0:
                break
            e += 1
        res.append((k, pe, b, e, False))
        k = pe + 1
    return res
