"""./check <PROP> [quick|thorough] | ./check replay <path> | ./check unit <unit> | ./check baseline"""
import json
import os
import re
import sys
import time

from . import extract, props, runner

ROOT = extract.ROOT
EVID = os.path.join(ROOT, "evidence")
REPLAYS = os.path.join(ROOT, "replays")
BASELINE = os.path.join(ROOT, "baseline_obligations.json")
KNOWN = os.path.join(ROOT, "known_findings.json")
LIMITS = os.path.join(ROOT, "verifier_limits.json")


def load_json(p, default):
    try:
        with open(p) as f:
            return json.load(f)
    except OSError:
        return default


def existing_units(names):
    return [u for u in names if os.path.exists(extract.unit_path(u))]


def norm_ws(s):
    return " ".join((s or "").split())


def match_known(known, prop, oid, fail):
    for k in known.get("findings", []):
        if k.get("status") != "open":
            continue
        if k.get("property") != prop or k.get("obligation") != oid:
            continue
        if k.get("class") and k["class"] != fail["class"]:
            continue
        if norm_ws(k.get("expr")) and norm_ws(k["expr"]) not in norm_ws(fail.get("expr")) and norm_ws(k["expr"]) not in norm_ws(fail.get("clause")):
            continue
        return k
    return None


def match_limit(limits, oid, fail):
    """A verification condition the installed verifier cannot decide (documented tool gap).  The
    function is then reported as partial: never counted as proved, its other conditions still watched."""
    for k in limits.get("limits", []):
        if k.get("obligation") != oid:
            continue
        if k.get("class") and k["class"] != fail["class"]:
            continue
        if norm_ws(k.get("expr")) and norm_ws(k["expr"]) in norm_ws(fail.get("expr")):
            return k
    return None


ALL_CLASSES = ("safety", "functional", "proof-internal")
_LEAVES = {}


def _rules(spec, u):
    """spec["units"][u] is (selection, classes[, topic]) or a list of such tuples (first matching rule wins)."""
    v = spec["units"][u]
    v = v if isinstance(v, list) else [v]
    return [(x[0], x[1], x[2] if len(x) > 2 else None) for x in v]


def _rule_for(spec, u, qual):
    for sel, classes, topic in _rules(spec, u):
        if sel is None or qual in sel:
            return sel, classes, topic
    return None


# Which property a failed clause speaks about (DESIGN.md 2.3): the units of the VM mix select / scheduling semantics with
# heap accounting in one contract, so a failure is attributed by the vocabulary of the failing conjunct.
_ACCT = re.compile(r"refcounts|\bocc\(|occ_seq|proc_roots|all_roots|select_held|\brooted\b|heap_wf|\bfreed\b|pending_free|balanced|proc_ok|proc_counted|select_counted|awaiting_counted|can_release|can_retain|counts_small|\.heap\b|heap\.len|\bheap\)|allocated|injected|reclaimed|only_counts_and_process|same_but_counts|nothing_reclaimed|heap_untouched|spec_vec_len\(.*heap")
# representation invariants that some other function's safety precondition relies on (an index, an unwrap, a counter):
# a producer that breaks one of them makes a worker panic downstream
_SAFEINV = re.compile(r"select_wf|receiving_ok|cursors(@|\.view\(\))\.len\(\)|frames_fn_ok|frames_fn_kept|table_sane|table_fn_ok|proc_sane|callers_can_advance|stack_small|frames_ok|counter_ok|processes(@|\.view\(\))\.(dom\(\)|contains_key)")
_FAIL = re.compile(r"failed_is_finished|\.result\b|frames(@|\.view\(\))\.len\(\) == 0")


# what a process roots: a clause that pins down one of these is about the heap accounting as much as one about the counts
# (seeded R6d: a message pushed onto the sender's own mailbox after it had been released - the count formula still held,
# the clause that failed was "the mailbox is unchanged")
_ROOTS = re.compile(r"\bmailbox\b|\bstack\b|\blocals\b|\bsources\b|\breceiving\b|\bawaiting\b|\.result\b|\bDeliver\b|\bSpawn\b|Action|proc_rest_same|select_state\s*(is\b|==|=~=)")


def _failure_text(f, leaves):
    if f["class"] == "functional" and leaves:
        return " ;; ".join(leaves)
    return " ".join(str(x) for x in (f.get("clause"), f.get("expr")) if x)


def _topic_ok(topic, f, leaves):
    if topic is None or f.get("taints"):
        return True
    text = _failure_text(f, leaves)
    acct = bool(_ACCT.search(text)) or (topic in ("acct", "crash") and bool(_ROOTS.search(text)))
    if topic == "taint":
        # only failures that invalidate the whole function (here: the assertions spliced into it); used where a
        # property owns one asserted fact of a function whose postconditions belong to others
        return False
    if topic == "acct":
        return acct
    if topic == "sem":
        # pure semantics: some failing conjunct that is not about the counts
        if f["class"] == "functional" and leaves:
            return any(not _ACCT.search(x) for x in leaves)
        return not acct
    if topic == "crash":
        # C15: every safety obligation; of the others those whose failure is a debug-build panic (a count that drifts)
        # or the failure-containment clauses of step
        return f["class"] == "safety" or acct or bool(_FAIL.search(text)) or bool(_SAFEINV.search(text))
    return True


def _selected(spec, u, qual):
    return _rule_for(spec, u, qual) is not None


def check_property(prop, tier):
    t0 = time.time()
    seed = int(os.environ.get("VERIF_SEED", "0") or 0)
    spec = props.PROPS[prop]
    units = existing_units(list(spec["units"].keys()))
    closure = existing_units(runner.home_closure(units))
    results = runner.run_units(closure)
    baseline = set(load_json(BASELINE, {}).get("discharged", []))
    known = load_json(KNOWN, {"findings": []})
    limits = load_json(LIMITS, {"limits": []})
    base_partial = set(load_json(BASELINE, {}).get("partial", []))
    partial = {}

    violations = []  # (oid, fail, unitresult)
    known_hits = []
    undecided = []
    obligations = {}
    per_ob = []
    trusted = []
    fn_under_contract = []
    norm_counts = {}
    assumed = []
    solver_ms = 0
    cmds = []

    for u in closure:
        r = results[u]
        if r.cmd:
            cmds.append(r.cmd)
        for x in r.infra:
            undecided.append("%s: %s" % (u, x))
        if r.gen is not None:
            for t in r.gen.trusted_scan:
                trusted.append("%s: %s" % (u, t))
            for a in r.gen.assumed:
                assumed.append("%s: %s assumed (%s): %s" % (u, a["qual"], a["reason"], norm_ws(a["contract"])[:200]))
            for k, v in r.gen.norm_counts.items():
                norm_counts[k] = norm_counts.get(k, 0) + v
        solver_ms += (r.verus.get("smt_ms") or 0)

    # imported contracts must be discharged in their home unit in this same run
    for u in units:
        r = results[u]
        if r.gen is None:
            continue
        for imp in r.gen.imports:
            h = results.get(imp["home"])
            oid = "%s::%s" % (imp["home"], imp["qual"])
            if h is None or oid not in h.obligations or h.obligations[oid]["status"] != "ok":
                # a failing home obligation is reported under the properties that own it; for this
                # property the importing unit is then only as good as that contract
                if h is not None and oid in h.obligations and h.obligations[oid]["status"] == "fail" and u in spec["units"]:
                    pass
                else:
                    undecided.append("%s: imported contract %s not discharged in its home unit" % (u, oid))

    for u in units:
        r = results[u]
        for oid, ob in r.obligations.items():
            classes = ALL_CLASSES
            topic = None
            if ob["kind"] == "fn":
                rule = _rule_for(spec, u, ob["qual"])
                if rule is None:
                    continue
                classes = rule[1]
                topic = rule[2]
            if ob["kind"] == "lemma":
                # lemmas carry no repository code; a failing lemma is an infrastructure problem
                if ob["status"] != "ok":
                    undecided.append("%s: lemma %s failed" % (u, ob["qual"]))
                obligations[oid] = "ok" if ob["status"] == "ok" else "undecided"
                per_ob.append({"id": oid, "kind": "lemma", "backend": "verus/z3", "ms": ob.get("ms"), "rlimit": ob.get("rlimit"), "status": obligations[oid]})
                continue
            lim = [(f, match_limit(limits, oid, f)) for f in ob["failures"]]
            lim_hits = [k for f, k in lim if k is not None]
            fails = [f for f, k in lim if k is None]
            rel_fail = [f for f in fails if f["class"] in classes]
            if topic is not None and rel_fail:
                leaves = []
                if any(f["class"] == "functional" for f in rel_fail) and r.gen_path:
                    key = (r.gen_path, ob["qual"])
                    if key not in _LEAVES:
                        from . import runner as _runner

                        _LEAVES[key] = _runner.expand_leaves(r.gen_path, ob["qual"])
                    leaves = _LEAVES[key]
                rel_fail = [f for f in rel_fail if _topic_ok(topic, f, leaves)]
            res_fail = [f for f in fails if f["class"] == "resource"]
            status = "ok"
            if ob["status"] == "undecided":
                status = "undecided"
                undecided.append("%s: %s cannot be decided on this tree: %s" % (u, oid, ob.get("undecided_reason", "")))
            if lim_hits:
                status = "partial"
                partial[oid] = sorted({k.get("id", "?") for k in lim_hits})
            if ob["status"] == "unknown":
                status = "undecided"
            if res_fail:
                status = "undecided"
                undecided.append("%s: resource limit in %s" % (u, oid))
            for f in rel_fail:
                k = match_known(known, prop, oid, f)
                if k is not None:
                    known_hits.append((k, oid, f))
                    if status == "ok":
                        status = "known-finding"
                    continue
                if oid in baseline or oid in base_partial:
                    violations.append((oid, f, r))
                    status = "violated"
                else:
                    undecided.append("%s: %s fails (%s: %s) but was never discharged on the baseline tree" % (u, oid, f["class"], f["message"]))
                    if status in ("ok", "partial"):
                        status = "undecided"
            if status == "ok" and ob["status"] not in ("ok",) and not lim_hits and not rel_fail and not res_fail and ob["failures"]:
                # fails only in classes another property owns (e.g. functional for C15): still not "discharged" here
                status = "fails-in-other-class"
            obligations[oid] = status
            per_ob.append(
                {
                    "id": oid,
                    "kind": "fn",
                    "backend": "verus/z3",
                    "ms": ob.get("ms"),
                    "rlimit": ob.get("rlimit"),
                    "status": status,
                    "source": "%s:%d-%d" % (ob["file"], ob["lines"][0], ob["lines"][1]),
                    "sha256": ob["sha256"][:16],
                    "contracted": ob["has_contract"],
                    "classes_owned": list(classes),
                }
            )
            fn_under_contract.append("%s (%s:%d-%d)" % (ob["qual"], ob["file"], ob["lines"][0], ob["lines"][1]))

    # baseline obligations of this property must all still exist (a vanished one is a lost anchor)
    for oid in sorted(baseline):
        u = oid.split("::", 1)[0]
        if u in spec["units"] and u in units and "::lemma::" not in oid:
            q = oid.split("::", 1)[1]
            if not _selected(spec, u, q):
                continue
            if oid not in obligations and results[u].gen is not None:
                undecided.append("%s: baseline obligation %s no longer generated" % (u, oid))

    # Kani obligations
    kani_res = []
    if spec.get("kani"):
        try:
            from . import kani

            kani_res = kani.run(spec["kani"], tier)
        except ImportError:
            kani_res = []
        for kr in kani_res:
            oid = "kani_kernels::" + kr["harness"]
            if kr["status"] == "ok":
                obligations[oid] = "ok" if not kr.get("bounded") else "ok-bounded"
            elif kr["status"] == "fail":
                f = {"class": "safety" if kr.get("safety") else "functional", "message": kr.get("message", "kani failure"), "expr": kr.get("expr", ""), "kani": kr}
                k = match_known(known, prop, oid, f)
                if k is not None:
                    known_hits.append((k, oid, f))
                    obligations[oid] = "known-finding"
                elif oid in baseline:
                    violations.append((oid, f, None))
                    obligations[oid] = "violated"
                else:
                    undecided.append("kani: %s fails but is not in the baseline" % oid)
                    obligations[oid] = "undecided"
            else:
                undecided.append("kani: %s undecided: %s" % (oid, kr.get("message", "")))
                obligations[oid] = "undecided"
            per_ob.append({"id": oid, "kind": "kani-harness", "backend": "kani/cbmc", "ms": kr.get("ms"), "status": obligations[oid], "bounded": kr.get("bounded", False), "bound": kr.get("bound", "")})

    # replay files + VIOLATION lines (stale files of earlier runs of this property are removed first)
    os.makedirs(REPLAYS, exist_ok=True)
    for fn in os.listdir(REPLAYS):
        if fn.startswith(prop + "_") and fn.endswith(".json"):
            try:
                os.remove(os.path.join(REPLAYS, fn))
            except OSError:
                pass
    lines = []
    seen_v = set()

    # Bounded stand-in (labelled so, never counted as proved): when a builtin unit can no longer be decided
    # deductively on this tree (its extracted text stopped compiling against the proof text - a changed type,
    # a renamed local, a construct outside the dialect), the boundary differential runs on the REAL builtins
    # of that unit.  A concrete input on which the real code panics or disagrees with the reference model is a
    # violation with a replayable counterexample; finding none leaves the unit undecided (exit 2).
    standin = {}
    if prop in ("C12", "C15"):
        fam = {"builtins_binary": "binary_", "builtins_integer": "integer_", "builtins_vector": "vector_", "rope": "binary_", "heap": "binary_"}
        broken = [u for u in units if u in fam and any(("does not compile" in x or x.startswith("extract")) for x in results[u].infra)]
        # a single function that lost its anchors (a new loop or closure the contract file does not know) leaves
        # that function - and every unit that imports its contract - undecided: same stand-in
        lost = {u: [ob["qual"] for ob in results[u].obligations.values() if ob.get("kind") == "fn" and ob.get("status") == "undecided"] for u in units if u in fam}
        for u, qs in lost.items():
            qs = [q for q in qs if _selected(spec, u, q)]
            if qs and u not in broken:
                broken.append(u)
                results[u].infra.append("lost anchor in " + ", ".join(qs))
        if broken:
            try:
                from . import cesearch

                names = sorted({n for n in cesearch.BUILTINS if any(n.startswith(fam[u]) for u in broken)} | ({n for n in cesearch.BUILTINS if n.startswith("vector_")} if any(u in ("rope", "heap") for u in broken) else set()))
                rep = cesearch.grid(names, seed, cap=1500)
                dis = rep["disagreements"]
                # the builtins that go through an undecided function get a much deeper sample (seeded R3c was found, then
                # lost again when the grid grew and the same cap covered a smaller share of it)
                deep = set()
                for u, qs in lost.items():
                    for q in qs:
                        oid = u + "::" + q
                        for pref, bs in cesearch.OBLIGATION_BUILTINS.items():
                            if oid.startswith(pref):
                                deep.update(bs)
                        if q.startswith("builtin_") and q[len("builtin_"):] in cesearch.BUILTINS:
                            deep.add(q[len("builtin_"):])
                if deep and not dis:
                    rep2 = cesearch.grid(sorted(deep), seed, cap=20000)
                    rep["calls"] += rep2["calls"]
                    dis = rep2["disagreements"]
                if prop == "C15":
                    dis = [d for d in dis if "panic" in d["observed"] or "abort" in d["observed"] or "hang" in d["observed"]]
                standin = {"bounded": True, "ran_because_undecided": broken, "builtins": names, "calls_on_real_code": rep["calls"], "failing_inputs": len(dis)}
                seen_b = set()
                for d in dis:
                    if d["builtin"] in seen_b:
                        continue
                    seen_b.add(d["builtin"])
                    rp = os.path.join(REPLAYS, "%s_standin_%s.json" % (prop, d["builtin"]))
                    with open(rp, "w") as fh:
                        json.dump({"property": prop, "obligation": "bounded_standin::" + d["builtin"], "class": "safety" if ("panic" in d["observed"] or "abort" in d["observed"] or "hang" in d["observed"]) else "functional",
                                   "verifier_message": "the unit could not be decided deductively on this tree (%s); the bounded boundary differential on the real code found a failing input" % "; ".join(x for u in broken for x in results[u].infra)[:300],
                                   "failing_expression": None, "counterexample": {"found": True, "input": d}}, fh, indent=1)
                    lines.append("VIOLATION property=%s replay=%s" % (prop, rp))
            except Exception as e:  # infrastructure trouble is never an alarm
                undecided.append("bounded stand-in could not run: %r" % (e,))
    # Same idea for the VM properties: when a function of theirs can no longer be decided (lost anchor, text outside
    # the dialect), the small program corpus runs on the real quiv binary built from this tree.  A program that
    # misbehaves is a violation with a replayable input; none found leaves the property undecided (exit 2).
    if prop in ("C05", "C06", "C13", "C15", "C16") and not violations:
        und_units = [u for u in units if any(("does not compile" in x or x.startswith("extract")) for x in results[u].infra)
                     or any(ob.get("kind") == "fn" and ob.get("status") == "undecided" and _selected(spec, u, ob.get("qual")) for ob in results[u].obligations.values())]
        if prop == "C15":
            # builtin / rope units have their own stand-in (the boundary differential above); programs are for the VM
            und_units = [u for u in und_units if u in ("heap", "handlers", "coldpath", "select", "step", "worker", "equality", "transfer")]
        if und_units:
            if "transfer" in und_units or "coldpath" in und_units:
                # cross-heap transfer on the real code: build / extract / inject / compare for a fixed list of values
                try:
                    from . import cesearch

                    tr = cesearch.transfer_grid()
                    for n, d in enumerate(tr["disagreements"][:5]):
                        rp = os.path.join(REPLAYS, "%s_standin_transfer_%d.json" % (prop, n))
                        with open(rp, "w") as fh:
                            json.dump({"property": prop, "obligation": "bounded_standin::transfer", "class": "functional",
                                       "verifier_message": "the deductive check is undecided on this tree (%s); a value extracted from one heap and injected into another does not read back the same on the real code" % ", ".join(und_units),
                                       "failing_expression": None, "counterexample": {"found": True, "input": d}}, fh, indent=1)
                        lines.append("VIOLATION property=%s replay=%s" % (prop, rp))
                except Exception as e:
                    undecided.append("bounded transfer stand-in could not run: %r" % (e,))
            try:
                from . import progsearch

                rep = progsearch.search(prop)
                standin = {"bounded": True, "ran_because_undecided": und_units, "programs_run_on_real_binary": rep["runs"], "failing_programs": len(rep["failures"])}
                for n, f in enumerate(rep["failures"][:5]):
                    rp = os.path.join(REPLAYS, "%s_standin_program_%d.json" % (prop, n))
                    with open(rp, "w") as fh:
                        json.dump({"property": prop, "obligation": "bounded_standin::program:" + f["program"], "class": "functional",
                                   "verifier_message": "the deductive check is undecided on this tree (%s); a program of the bounded corpus misbehaves on the real binary" % ", ".join(und_units),
                                   "failing_expression": None,
                                   "counterexample": {"found": True, "input": {"builtin": "program:" + f["program"], "args": [f["source"]], "rope_shape": "-", "expected": ["see why"], "observed": {"why": f["why"]}, "call": None}}}, fh, indent=1)
                    lines.append("VIOLATION property=%s replay=%s" % (prop, rp))
            except Exception as e:  # infrastructure trouble is never an alarm
                undecided.append("bounded program stand-in could not run: %r" % (e,))
    for oid, f, r in violations:
        keyv = (oid, f["class"], f.get("expr"))
        if keyv in seen_v:
            continue
        seen_v.add(keyv)
        rp = os.path.join(REPLAYS, "%s_%s_%d.json" % (prop, oid.replace("::", "."), len(seen_v)))
        ce = None
        try:
            from . import cesearch

            ce = cesearch.search(oid, f, seed)
        except ImportError:
            ce = None
        except Exception as e:  # the search only decorates a violation; it never decides
            ce = {"found": False, "note": "counterexample search crashed: %r" % (e,)}
        if not (ce and ce.get("found")) and oid.split("::", 1)[0] in ("heap", "handlers", "coldpath", "equality", "select", "step", "worker"):
            # a violated VM obligation: look for a failing program in the bounded corpus on the real quiv binary
            try:
                from . import progsearch

                pr = progsearch.search_all()
                if pr["failures"]:
                    f0 = pr["failures"][0]
                    ce = {"found": True, "note": "a program of the bounded corpus misbehaves on quiv built from this tree (%d of %d programs fail); it shows that the tree is broken, not necessarily through this obligation" % (len(pr["failures"]), pr["runs"]),
                          "input": {"builtin": "program:" + f0["program"], "args": [f0["source"]], "rope_shape": "-", "expected": ["see why"], "observed": {"why": f0["why"]}, "call": None}}
                else:
                    ce = {"found": False, "note": "no program of the bounded corpus (%d programs on the real quiv binary) misbehaves" % pr["runs"]}
            except Exception as e:
                ce = {"found": False, "note": "program corpus could not run: %r" % (e,)}
        rep = {
            "property": prop,
            "obligation": oid,
            "class": f["class"],
            "verifier_message": f["message"],
            "failing_expression": f.get("expr"),
            "failed_clause": f.get("clause"),
            "generated_file": r.gen_path if r is not None else None,
            "generated_line": f.get("gen_line"),
            "source": (r.obligations[oid]["file"] + ":%d-%d" % tuple(r.obligations[oid]["lines"])) if r is not None and oid in r.obligations else None,
            "verifier_cmd": r.cmd if r is not None else None,
            "verifier_labels": f.get("labels"),
            "counterexample": ce,
            "kani": f.get("kani"),
        }
        with open(rp, "w") as fh:
            json.dump(rep, fh, indent=1)
        tail = "" if (ce and ce.get("found")) else " no-failing-input-found"
        lines.append("VIOLATION property=%s replay=%s%s" % (prop, rp, tail))

    seen_k = set()
    for k, oid, f in known_hits:
        if k.get("id") in seen_k:
            continue
        seen_k.add(k.get("id"))
        print("KNOWN-FINDING: property=%s %s" % (prop, k.get("what", k.get("id"))))

    # partial functions are never counted, neither as obligations nor as discharged
    # bounded (Kani with an unwinding bound) obligations are reported separately and are neither proof obligations nor
    # discharged ones: `obligations` / `discharged` count what the deductive back ends decide without a bound
    n_partial = sum(1 for v in obligations.values() if v == "partial")
    n_bounded = sum(1 for v in obligations.values() if v == "ok-bounded")
    n_ob = len(obligations) - n_partial - n_bounded
    n_ok = sum(1 for v in obligations.values() if v in ("ok", "fails-in-other-class"))
    samples = []
    for u in units:
        r = results[u]
        if r.gen is None:
            continue
        for f in r.gen.fns[:]:
            if f["obligation"] in obligations and len(samples) < 6 and f["has_contract"]:
                samples.append(
                    {
                        "obligation": f["obligation"],
                        "real_source": "%s:%d-%d sha256=%s" % (f["file"], f["lines"][0], f["lines"][1], f["sha256"][:16]),
                        "contract": norm_ws(f["contract"])[:600],
                        "verdict": obligations[f["obligation"]],
                    }
                )
                break
    for u in units:
        r = results[u]
        if r.gen is None:
            continue
        for f in r.gen.fns[1:3]:
            if f["obligation"] in obligations and len(samples) < 8 and f["has_contract"]:
                samples.append(
                    {
                        "obligation": f["obligation"],
                        "real_source": "%s:%d-%d sha256=%s" % (f["file"], f["lines"][0], f["lines"][1], f["sha256"][:16]),
                        "contract": norm_ws(f["contract"])[:600],
                        "verdict": obligations[f["obligation"]],
                    }
                )

    extra = {}
    if tier == "thorough":
        from . import thorough

        extra = thorough.run(prop, units, results, seed)
        for x in extra.get("undecided", []):
            undecided.append(x)
        for n, dis in enumerate(extra.get("violations", [])[:10]):
            rp = os.path.join(REPLAYS, "%s_differential_%s_%d.json" % (prop, dis["builtin"], n))
            with open(rp, "w") as fh:
                json.dump({"property": prop, "obligation": "boundary_differential::" + dis["builtin"], "class": "functional",
                           "verifier_message": "bounded differential on the real code disagrees with the reference model (not a proof obligation)",
                           "failing_expression": None, "counterexample": {"found": True, "input": dis}}, fh, indent=1)
            lines.append("VIOLATION property=%s replay=%s" % (prop, rp))

    meta = load_json(os.path.join(ROOT, "contracts", "meta.json"), {})
    ev = {
        "property_id": prop,
        "tier": tier,
        "seed": seed,
        "level": "proof",
        "coverage": {
            "obligations": n_ob,
            "discharged": n_ok,
            "bounded_not_counted_as_proved": n_bounded,
            "bounded_standin": standin,
            "partial_not_counted_as_proved": [{"obligation": k, "verifier_limits": v} for k, v in sorted(partial.items())],
            "verifier_limits": [l for l in limits.get("limits", []) if any(l.get("id") in v for v in partial.values())],
            "checker_cmd": " ; ".join(sorted(set(cmds)))[:2000] + " (run in /verif/build/gen on files re-extracted from /repo's working tree)",
            "trusted_base": sorted(set(trusted)) + meta.get("trusted_base_notes", []),
            "samples": samples,
            "units": units,
            "home_units_also_run": [u for u in closure if u not in units],
            "functions_under_contract": sorted(set(fn_under_contract)),
            "per_obligation": per_ob,
            "solver_time_ms": solver_ms,
            "verus": {u: results[u].verus for u in closure},
            "normalisations": norm_counts,
            "dropped_by_extraction": meta.get("dropped", []),
            "not_under_contract": meta.get("not_under_contract", {}).get(prop, []),
            "assumed_contracts": assumed,
            "imported_contracts_proved_in_home_unit": sorted({"%s::%s (home unit %s)" % (u, i["qual"], i["home"]) for u in units if results[u].gen is not None for i in results[u].gen.imports}),
            "known_findings_matched": [k.get("id") for k, _, _ in known_hits],
            "undecided": undecided,
            "cache_hits": [u for u in closure if results[u].cached],
            "explanation": meta.get("explanation", {}).get(prop, ""),
        },
        "assumptions": meta.get("assumptions", {}).get(prop, meta.get("assumptions", {}).get("*", [])),
        "wall_s": round(time.time() - t0, 2),
        "violations": len(lines),
    }
    ev["coverage"].update(extra.get("coverage", {}))
    os.makedirs(EVID, exist_ok=True)
    with open(os.path.join(EVID, prop + ".json"), "w") as fh:
        json.dump(ev, fh, indent=1)

    for l in lines:
        print(l)
    if lines:
        return 1
    if undecided:
        for x in undecided:
            print("UNDECIDED property=%s %s" % (prop, x))
        return 2
    print("OK property=%s tier=%s obligations=%d discharged=%d bounded=%d wall=%.1fs" % (prop, tier, n_ob, n_ok, n_bounded, time.time() - t0))
    return 0


def cmd_unit(unit, flags):
    r = runner.run_unit(unit, use_cache="--no-cache" not in flags, vacuity="--vacuity" in flags)
    print("unit", unit, "cached" if r.cached else "", r.verus, "wall %.1fs" % r.wall_s)
    for x in r.infra:
        print("  INFRA:", x)
    for oid, ob in r.obligations.items():
        if ob["status"] != "ok":
            print("  %-50s %s" % (oid, ob["status"]))
            for f in ob["failures"]:
                print("      [%s] %s | %s | line %s | %s" % (f["class"], f["message"], f.get("expr", "")[:100], f.get("gen_line"), (f.get("clause") or "")[:120]))
    n = sum(1 for o in r.obligations.values() if o["status"] == "ok")
    print("  ok %d / %d" % (n, len(r.obligations)))
    return 0


def cmd_baseline():
    """Developer command: record which obligations are discharged on the unchanged tree."""
    allu = sorted({u for p in props.PROPS.values() for u in p["units"]})
    units = existing_units(allu)
    res = runner.run_units(units)
    ok = []
    bad = []
    part = []
    limits = load_json(LIMITS, {"limits": []})
    for u in units:
        for oid, ob in res[u].obligations.items():
            if ob["status"] == "ok":
                ok.append(oid)
            elif ob["failures"] and all(match_limit(limits, oid, f) is not None for f in ob["failures"]):
                part.append(oid)
            else:
                bad.append(oid)
        for x in res[u].infra:
            bad.append(u + " INFRA " + x)
    try:
        from . import kani

        names = sorted({h for p in props.PROPS.values() for h in p.get("kani", [])})
        for kr in kani.run(names, "thorough"):
            (ok if kr["status"] == "ok" else bad).append("kani_kernels::" + kr["harness"])
    except ImportError:
        pass
    with open(BASELINE, "w") as f:
        json.dump({"note": "obligations discharged on the unchanged (repaired) tree; written only by `./check baseline`", "discharged": sorted(ok), "partial": sorted(part)}, f, indent=1)
    print("baseline: %d discharged, %d partial (verifier limits), %d not" % (len(ok), len(part), len(bad)))
    for b in bad:
        print("  NOT:", b)
    return 0 if not bad else 2


def main(argv):
    if len(argv) < 2:
        print(__doc__)
        return 2
    if argv[1] in props.PROPS:
        tier = argv[2] if len(argv) > 2 else os.environ.get("VERIF_TIER", "quick")
        if tier not in ("quick", "thorough"):
            tier = "quick"
        return check_property(argv[1], tier)
    if argv[1] == "unit":
        return cmd_unit(argv[2], argv[3:])
    if argv[1] == "baseline":
        return cmd_baseline()
    if argv[1] == "replay":
        from . import cesearch

        return cesearch.replay(argv[2])
    print(__doc__)
    return 2
