"""Runs Verus on generated unit files, classifies diagnostics into obligations, caches by content."""
import hashlib
import json
import os
import re
import subprocess
import time
from concurrent.futures import ThreadPoolExecutor

from . import extract

ROOT = extract.ROOT
BUILD = os.path.join(ROOT, "build")
GEN = os.path.join(BUILD, "gen")
CACHE = os.path.join(BUILD, "cache")

VERUS_FLAGS = ["--edition=2024", "--error-format=json", "--output-json", "--time", "--multiple-errors", "30"]

SAFETY_MSG = (
    "possible arithmetic underflow/overflow",
    "possible bit shift underflow/overflow",
    "possible division by zero",
    "possible truncation",
    "index out of bounds",
)
PROOF_MSG = (
    "assertion failed",
    "invariant not satisfied",
    "loop invariant not preserved",
    "decreases not satisfied",
    "could not prove termination",
    "unable to prove assertion",
    "postcondition not satisfied at loop",
    "loop ensures not satisfied",
    "type invariant not satisfied",
    "may fail to meet its declared type invariant",
)
RESOURCE_MSG = ("rlimit exceeded", "resource limit", "solver timed out", "timed out", "while loop: Resource limit")


def verus_version():
    try:
        out = subprocess.run(["verus", "--version"], capture_output=True, text=True, timeout=60).stdout
        m = re.search(r"Version:\s*(\S+)", out)
        return m.group(1) if m else out.strip()[:80]
    except Exception as e:  # noqa
        return "unknown"


_VV = None


def _vv():
    global _VV
    if _VV is None:
        _VV = verus_version()
    return _VV


def classify(msg, spans, gen_text_lines):
    """-> class of a verification diagnostic, or None if it is not a verification failure."""
    ml = msg.lower()
    for s in RESOURCE_MSG:
        if s.lower() in ml:
            return "resource"
    for s in SAFETY_MSG:
        if s in ml:
            return "safety"
    if "precondition not satisfied" in ml:
        # find the failed precondition text
        for sp in spans:
            if (sp.get("label") or "").startswith("failed precondition"):
                ln = sp.get("line_start", 0)
                txt = "\n".join(x.get("text", "") for x in sp.get("text", []))
                if "/*functional*/" in txt:
                    return "functional"
                # look at the same line in the generated file for a tag
                if 0 < ln <= len(gen_text_lines) and "/*functional*/" in gen_text_lines[ln - 1]:
                    return "functional"
        return "safety"
    if "postcondition not satisfied" in ml and "loop" not in ml:
        return "functional"
    if "unable to prove post-condition of closure" in ml or "unable to prove postcondition of closure" in ml:
        # the contract of a closure (S7) states what the closure's real body computes
        return "functional"
    for s in PROOF_MSG:
        if s in ml:
            return "proof-internal"
    return None


def expand_leaves(gen_path, qual):
    """The failing conjuncts of a function's postconditions, as reported by `verus --expand-errors` (the lines marked
    with a cross that have no more deeply nested cross below them).  Used only to attribute a failure to the property
    its clause speaks about; [] when nothing can be parsed (the caller then falls back to the whole clause)."""
    try:
        p = subprocess.run(["verus", "--edition=2024", os.path.basename(gen_path), "--verify-root", "--verify-function", qual, "--expand-errors", "--multiple-errors", "30"],
                           cwd=os.path.dirname(gen_path), capture_output=True, text=True, timeout=1800)
    except Exception:
        return []
    marked = []
    for line in (p.stdout + "\n" + p.stderr).split("\n"):
        if "\u2718" in line or "\u2714" in line:
            body = line.lstrip("| ").rstrip()
            depth = len(line) - len(line.lstrip("| "))
            marked.append((depth, "\u2718" in line, body.replace("\u2718", "").replace("\u2714", "").strip()))
    leaves = []
    for i, (d, bad, txt) in enumerate(marked):
        if not bad:
            continue
        nxt = marked[i + 1] if i + 1 < len(marked) else None
        if nxt is not None and nxt[0] > d and any(b for dd, b, _ in marked[i + 1:] if dd > d):
            # has a failing child further down (children are listed right below, more deeply indented)
            j = i + 1
            child_bad = False
            while j < len(marked) and marked[j][0] > d:
                child_bad = child_bad or marked[j][1]
                j += 1
            if child_bad:
                continue
        leaves.append(txt[:400])
    return leaves


class UnitResult:
    def __init__(self, unit):
        self.unit = unit
        self.infra = []  # strings: reasons this unit is undecided
        self.obligations = {}  # id -> dict(status, kind, failures[], ms, rlimit, ...)
        self.gen = None
        self.verus = {}
        self.cached = False
        self.wall_s = 0.0
        self.cmd = ""
        self.gen_path = ""


def _run_verus(path, extra=()):
    cmd = ["verus"] + VERUS_FLAGS + list(extra) + [os.path.basename(path)]
    t0 = time.time()
    p = subprocess.run(cmd, cwd=os.path.dirname(path), capture_output=True, text=True, timeout=3600)
    return p.returncode, p.stdout, p.stderr, time.time() - t0, " ".join(cmd)


def _parse(stdout, stderr):
    out = None
    try:
        # stdout is one JSON document
        k = stdout.find("{")
        if k >= 0:
            out = json.loads(stdout[k:])
    except Exception:
        out = None
    diags = []
    rawerr = []
    for line in stderr.split("\n"):
        line = line.strip()
        if not line:
            continue
        if line.startswith("{"):
            try:
                diags.append(json.loads(line))
                continue
            except Exception:
                pass
        rawerr.append(line)
    return out, diags, rawerr


def run_unit(unit, vacuity=False, extra_flags=(), use_cache=True, tag=""):
    """One function whose text Verus rejects (a construct outside the dialect) must not take its unit down: when every
    compile error lies inside extracted functions, those functions are stubbed (contract kept, reported undecided)
    and the unit is run once more, so that the other functions keep their verdicts."""
    first = r = _run_unit(unit, vacuity, extra_flags, use_cache, tag, None)
    esc = {}
    wall = r.wall_s
    for _ in range(4):  # Verus may stop at the first rejected function
        new = getattr(r, "dialect_escapes", None)
        if not new or all(q in esc for q in new):
            break
        esc.update(new)
        r = _run_unit(unit, vacuity, extra_flags, use_cache, tag, esc)
        wall += r.wall_s
        if not any("does not compile" in x or x.startswith("extract") for x in r.infra):
            r.wall_s = wall
            return r
    return first


def _run_unit(unit, vacuity, extra_flags, use_cache, tag, force_stub):
    r = UnitResult(unit)
    t0 = time.time()
    try:
        gu = extract.generate(unit, vacuity=vacuity, force_stub=force_stub)
    except extract.ExtractError as e:
        r.infra.append("extract: %s" % e)
        r.wall_s = time.time() - t0
        return r
    except Exception as e:  # scanner bugs etc. are infrastructure errors, never alarms
        r.infra.append("extract crashed: %r" % (e,))
        r.wall_s = time.time() - t0
        return r
    r.gen = gu
    os.makedirs(GEN, exist_ok=True)
    os.makedirs(CACHE, exist_ok=True)
    name = unit + ("_vac" if vacuity else "") + tag
    path = os.path.join(GEN, name + ".rs")
    with open(path, "w") as f:
        f.write(gu.text)
    r.gen_path = path
    key = hashlib.sha256(("\0".join([gu.text, _vv(), " ".join(VERUS_FLAGS), " ".join(extra_flags), name])).encode()).hexdigest()
    cpath = os.path.join(CACHE, key + ".json")
    rc = None
    if use_cache and os.path.exists(cpath):
        try:
            with open(cpath) as f:
                c = json.load(f)
            rc, stdout, stderr, dt, cmd = c["rc"], c["stdout"], c["stderr"], c["dt"], c["cmd"]
            r.cached = True
        except Exception:
            rc = None
    if rc is None:
        try:
            rc, stdout, stderr, dt, cmd = _run_verus(path, extra_flags)
        except subprocess.TimeoutExpired:
            r.infra.append("verus timed out")
            r.wall_s = time.time() - t0
            return r
        except FileNotFoundError:
            r.infra.append("verus not found on PATH")
            r.wall_s = time.time() - t0
            return r
        with open(cpath, "w") as f:
            json.dump({"rc": rc, "stdout": stdout, "stderr": stderr, "dt": dt, "cmd": cmd}, f)
    r.cmd = cmd
    r.verus_wall_s = dt
    out, diags, rawerr = _parse(stdout, stderr)
    lines = gu.text.split("\n")

    # line ranges of generated fns
    def line_at(off):
        return gu.text.count("\n", 0, off) + 1

    franges = []
    for f in gu.fns:
        franges.append((line_at(f["out_start"]), line_at(f["out_end"]), f))
    for f in gu.fns:
        r.obligations[f["obligation"]] = {
            "kind": "fn",
            "status": "unknown",
            "failures": [],
            "file": f["file"],
            "lines": f["lines"],
            "sha256": f["sha256"],
            "has_contract": f["has_contract"],
            "qual": f["qual"],
        }

    for fi in gu.fn_infra:
        r.obligations[fi["obligation"]] = {
            "kind": "fn", "status": "undecided", "failures": [], "file": fi["file"], "lines": fi["lines"], "sha256": fi["sha256"],
            "has_contract": True, "qual": fi["qual"], "undecided_reason": fi["reason"],
        }

    if out is None:
        r.infra.append("verus produced no JSON result (rc=%s): %s" % (rc, " | ".join(rawerr[:5])[:600]))
        r.wall_s = time.time() - t0
        return r
    vr = out.get("verification-results", {})
    r.verus = {"verified": vr.get("verified"), "errors": vr.get("errors"), "version": out.get("verus", {}).get("version")}
    tm = out.get("times-ms", {})
    r.verus["smt_ms"] = tm.get("smt", {}).get("total")
    r.verus["total_ms"] = tm.get("total")

    compile_errors = []
    compile_targets = []
    for d in diags:
        if d.get("level") != "error":
            continue
        msg = d.get("message", "")
        if msg.startswith("aborting due to"):
            continue
        spans = d.get("spans", [])
        cls = classify(msg, spans, lines)
        # which fn?
        target = None
        prim = [s for s in spans if s.get("is_primary")] + [s for s in spans if not s.get("is_primary")]
        for sp in prim:
            ln = sp.get("line_start", 0)
            for a, b, f in franges:
                if a <= ln < b:
                    target = f
                    break
            if target:
                break
        if cls is None:
            compile_errors.append("%s (line %s)" % (msg[:300], prim[0].get("line_start") if prim else "?"))
            compile_targets.append((target["qual"] if target else None, msg[:200]))
            continue
        psp = prim[0] if prim else {}
        expr = ""
        if psp.get("text"):
            t = psp["text"][0]
            expr = t.get("text", "")[t.get("highlight_start", 1) - 1 : t.get("highlight_end", 1) - 1]
            if len(psp["text"]) > 1:
                expr = " ".join(x.get("text", "").strip() for x in psp["text"])
        ml_ = msg.lower()
        fail = {
            "class": cls,
            # A failed assertion / invariant / closure contract / callee precondition is ASSUMED by the verifier for the
            # rest of the function, so everything proved after it is proved under a possibly false hypothesis: such a
            # failure cannot be attributed to one property by its wording (cli._topic_ok), it taints the whole function.
            # A failed postcondition conjunct (nothing comes after it) or a possible overflow / out-of-bounds (what follows
            # holds whenever execution gets there) does not.
            "taints": cls == "proof-internal" or "closure" in ml_ or "precondition not satisfied" in ml_,
            "message": msg,
            "expr": " ".join(expr.split())[:300],
            "gen_line": psp.get("line_start"),
            "labels": [(s.get("line_start"), s.get("label")) for s in spans],
        }
        # the failed pre/postcondition text, when given
        for sp in spans:
            lab = sp.get("label") or ""
            if lab.startswith("failed") and sp.get("text"):
                fail["clause"] = " ".join(x.get("text", "").strip() for x in sp["text"])[:400]
        if target is None:
            r.infra.append("verification failure outside extracted functions (prelude/lemma): %s at line %s" % (msg, psp.get("line_start")))
            continue
        r.obligations[target["obligation"]]["failures"].append(fail)
    if compile_errors and compile_targets and all(q for q, _ in compile_targets):
        r.dialect_escapes = {}
        for q, m in compile_targets:
            r.dialect_escapes.setdefault(q, m)
    if compile_errors:
        r.infra.append("generated file does not compile under Verus (construct outside the dialect or renamed local): " + " ;; ".join(compile_errors[:4]))

    # per-function times and success flags
    crate = os.path.splitext(os.path.basename(path))[0]
    lemma_total = 0
    lemma_ok = 0
    fb = []
    for mod in tm.get("smt", {}).get("smt-run-module-times", []):
        fb.extend(mod.get("function-breakdown", []))
    seen_exec = {}
    for f in fb:
        fname = f.get("function", "")
        short = fname[len(crate) + 2 :] if fname.startswith(crate + "::") else fname
        mode = f.get("mode:", f.get("mode"))
        if mode == "proof":
            lemma_total += 1
            oid = unit + "::lemma::" + short
            r.obligations[oid] = {
                "kind": "lemma",
                "status": "ok" if f.get("success") else "fail",
                "failures": [] if f.get("success") else [{"class": "proof-internal", "message": "lemma failed", "expr": short}],
                "ms": f.get("time"),
                "rlimit": f.get("rlimit"),
                "qual": short,
            }
            if f.get("success"):
                lemma_ok += 1
        elif mode == "exec":
            seen_exec[short] = f
    for f in gu.fns:
        ob = r.obligations[f["obligation"]]
        q = f["qual"]
        e = seen_exec.get(q)
        if e is None:
            # trait impls are reported as impl&%N::name
            last = q.split("::")[-1]
            cands = [v for k, v in seen_exec.items() if k.split("::")[-1] == last and "impl&%" in k]
            if len(cands) == 1:
                e = cands[0]
        if e is not None:
            ob["ms"] = e.get("time")
            ob["rlimit"] = e.get("rlimit")
            ob["smt_success"] = e.get("success")
        if ob["failures"]:
            classes = {x["class"] for x in ob["failures"]}
            ob["status"] = "resource" if classes == {"resource"} else "fail"
        elif e is not None and e.get("success") is False:
            ob["status"] = "fail"
            ob["failures"].append({"class": "proof-internal", "message": "function reported unsuccessful without a located diagnostic", "expr": ""})
        elif compile_errors or (vr.get("encountered-vir-error")):
            ob["status"] = "unknown"
        else:
            ob["status"] = "ok"
    if vr.get("encountered-vir-error"):
        r.infra.append("verus reported a VIR error")
    r.wall_s = time.time() - t0
    return r


def run_units(units, **kw):
    res = {}
    with ThreadPoolExecutor(max_workers=min(8, max(1, len(units)))) as ex:
        futs = {u: ex.submit(run_unit, u, **kw) for u in units}
        for u, f in futs.items():
            res[u] = f.result()
    return res


def home_closure(units):
    """Units plus the home units of everything they import (so assumed-here is proved-there)."""
    todo = list(units)
    seen = []
    while todo:
        u = todo.pop(0)
        if u in seen:
            continue
        seen.append(u)
        try:
            for d in extract.parse_vspec(extract.unit_path(u)):
                if d.kind == "import":
                    h = d.opt("home")
                    if h and h not in seen:
                        todo.append(h)
        except extract.ExtractError:
            pass
    return seen
