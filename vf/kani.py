"""Kani/CBMC back end for the few kernels that are outside the Verus dialect.  The functions are cut
verbatim from /repo on every run into a throw-away crate under build/kani/, the harness text comes
from contracts/kani/.  Results are cached by the content of the generated crate."""
import hashlib
import json
import os
import re
import shutil
import subprocess
import time

from . import extract
from . import rustscan as rs

ROOT = extract.ROOT
BUILD = os.path.join(ROOT, "build", "kani")
CACHE = os.path.join(ROOT, "build", "cache")

SETS = {
    "lane_fits_push_lane": {
        "file": "quiver-core/src/builtins/vector.rs",
        "prelude": "",
        "items": [("fn", "lane"), ("fn", "fits"), ("fn", "push_lane")],
        "impl": None,
        "harness_file": "vector_kernels.harness.rs",
        "harnesses": ["lane_8", "lane_4", "fits_all", "push_lane_8", "push_lane_4"],
        "edition": "2021",
        "bounded": False,
        "bound": "loop-free kernels; every i64 value / every lane content; the buffer handed to lane() is at most 3 lanes long (its index arithmetic is linear and checked for every in-bounds index of such buffers)",
        "quick": True,
    },
    "find_byte": {
        "file": "quiver-core/src/binary.rs",
        "prelude": "use std::rc::Rc;\n",
        "items": [("enum", "BinaryData")],
        "impl": ("BinaryData", ["new", "zeroed", "len", "is_empty", "concat", "slice", "tiled", "find_byte"]),
        "harness_file": "find_byte.harness.rs",
        # concat_slice_zeroed, slice_of_tiled and tiled_concat (three-level ropes) exhaust CBMC's memory or run past
        # four minutes here; they stay in the harness file but are not run
        "harnesses": ["owned", "zeroed", "slice_of_owned", "concat_owned_owned", "tiled_owned"],
        "edition": "2024",
        "bounded": True,
        "bound": "ropes of one inner node (Slice, Concat, Tiled; count <= 3) over Owned leaves of at most 3 symbolic bytes, plus Owned and Zeroed alone; every byte value and every offset <= len + 1",
        # find_byte is now PROVED in Verus (unit rope, unbounded); the bounded CBMC run stays in the thorough tier as
        # an independent second opinion on the same contract through another back end
        "quick": False,
    },
}


# NOT registered in any property: CBMC does not finish on it here (two attempts: 3-slot heaps ran past 15 min
# at 4 GB; 2-slot heaps with allocation-free Zeroed data and no recursion in the assertions ran past 9 min at
# 10 GB).  Vec<BinaryData> with Rc children is what explodes.  Kept so that the attempt can be repeated.
SETS["allocator"] = {
    "custom": "allocator",
    "harness_file": "allocator.harness.rs",
    "harnesses": ["two_allocations_never_alias", "pending_free_never_frees_counted"],
    "edition": "2024",
    "bounded": True,
    "bound": "heaps of at most 2 slots (every wf combination of counts <= 2 / freed flags / free list), at most 2 queued frees with duplicates, two consecutive allocations",
    "quick": False,
}


def _gen_allocator():
    """struct Executor reduced to its heap fields + allocate_binary_data + process_pending_free, verbatim."""
    parts = ["use std::rc::Rc;\npub trait Effect {}\npub fn verif_format<T>(_t: T) -> String { String::new() }\npub fn verif_debug_assert(c: bool) { assert!(c); }\n"]
    prov = []

    def cut(rel, kind, name, keep=None, extra=None, derive=None):
        d = extract.Directive("cut", [kind, name, "from", rel] + (["keep=" + keep] if keep else []) + (["extra=" + extra] if extra else []) + (["derive=" + derive] if derive else []), "kani:allocator")
        out, info, _ = extract.gen_cut(d, ["crate::binary::", "crate::value::", "crate::error::"])
        prov.append(info)
        return out

    extract.Source.reset()
    parts.append(cut("quiver-core/src/binary.rs", "const", "MAX_BINARY_SIZE"))
    parts.append("#[derive(Debug, Clone, PartialEq)]\n" + cut("quiver-core/src/binary.rs", "enum", "BinaryData"))
    parts.append("#[derive(Debug, Clone, Copy, PartialEq)]\n" + cut("quiver-core/src/value.rs", "enum", "Binary"))
    parts.append("#[derive(Debug)]\n" + cut("quiver-core/src/error.rs", "enum", "Error"))
    parts.append(cut("quiver-core/src/executor.rs", "struct", "Executor", keep="heap,refcounts,free,pending_free,freed,reclaimed", extra="    pub _e: core::marker::PhantomData<E>,"))
    for rel, ty, fns in (("quiver-core/src/binary.rs", "BinaryData", ["new", "len"]), ("quiver-core/src/executor.rs", "Executor", ["allocate_binary_data", "process_pending_free"])):
        S = extract.Source.get(rel)
        body = []
        for fn in fns:
            it, _ = rs.find_fn(S.src, S.mask, ty + "::" + fn)
            text = S.src[it.start : it.end]
            prov.append({"item": "fn %s::%s" % (ty, fn), "file": rel, "lines": [rs.line_of(S.src, it.start), rs.line_of(S.src, it.end)], "sha256": hashlib.sha256(text.encode()).hexdigest()})
            # N1 (format! -> verif_format): Display formatting dominates CBMC's cost and is irrelevant here
            m = S.mask[it.start : it.end]
            text, _ = extract.apply_edits(text, extract.norm_macros(text, m, ["crate::value::"]))
            body.append(text)
        hdr = "impl BinaryData" if ty == "BinaryData" else "impl<E: Effect> Executor<E>"
        parts.append("%s {\n%s\n}\n" % (hdr, "\n\n".join(body)))
    return "\n".join(parts), prov


def kani_version():
    try:
        out = subprocess.run(["cargo", "kani", "--version"], capture_output=True, text=True, timeout=60)
        return (out.stdout + out.stderr).strip().split("\n")[-1][:60]
    except Exception:
        return "unknown"


def generate(name):
    spec = SETS[name]
    if spec.get("custom") == "allocator":
        main, prov = _gen_allocator()
        with open(os.path.join(ROOT, "contracts", "kani", spec["harness_file"])) as f:
            main = main + "\n" + f.read()
        d = os.path.join(BUILD, name)
        os.makedirs(os.path.join(d, "src"), exist_ok=True)
        os.makedirs(os.path.join(d, ".cargo"), exist_ok=True)
        with open(os.path.join(d, "Cargo.toml"), "w") as f:
            f.write('[package]\nname = "verif_%s"\nversion = "0.1.0"\nedition = "%s"\n[workspace]\n' % (name, spec["edition"]))
        with open(os.path.join(d, ".cargo", "config.toml"), "w") as f:
            f.write("[net]\noffline = true\n")
        with open(os.path.join(d, "src", "main.rs"), "w") as f:
            f.write(main)
        return d, main, prov
    src_path = os.path.join(extract.REPO, spec["file"])
    with open(src_path) as f:
        src = f.read()
    m = rs.mask(src)
    parts = [spec["prelude"]]
    prov = []
    for kind, item in spec["items"]:
        if kind == "fn":
            it, _ = rs.find_fn(src, m, item)
        else:
            its = rs.find_items(src, m, kind, item, 0, None, 0)
            if len(its) != 1:
                raise extract.ExtractError("lost anchor: %s %s in %s" % (kind, item, spec["file"]))
            it = its[0]
        text = src[it.start : it.end]
        if kind == "enum":
            text = "#[derive(Debug, Clone, PartialEq)]\n" + text
        parts.append(text)
        prov.append({"item": "%s %s" % (kind, item), "file": spec["file"], "lines": [rs.line_of(src, it.start), rs.line_of(src, it.end)], "sha256": hashlib.sha256(src[it.start : it.end].encode()).hexdigest()})
    if spec["impl"]:
        ty, fns = spec["impl"]
        body = []
        for fn in fns:
            it, _ = rs.find_fn(src, m, ty + "::" + fn)
            body.append(src[it.start : it.end])
            prov.append({"item": "fn %s::%s" % (ty, fn), "file": spec["file"], "lines": [rs.line_of(src, it.start), rs.line_of(src, it.end)], "sha256": hashlib.sha256(src[it.start : it.end].encode()).hexdigest()})
        parts.append("impl %s {\n%s\n}\n" % (ty, "\n\n".join(body)))
    with open(os.path.join(ROOT, "contracts", "kani", spec["harness_file"])) as f:
        parts.append(f.read())
    main = "\n\n".join(parts)
    d = os.path.join(BUILD, name)
    os.makedirs(os.path.join(d, "src"), exist_ok=True)
    os.makedirs(os.path.join(d, ".cargo"), exist_ok=True)
    with open(os.path.join(d, "Cargo.toml"), "w") as f:
        f.write('[package]\nname = "verif_%s"\nversion = "0.1.0"\nedition = "%s"\n[workspace]\n' % (name, spec["edition"]))
    with open(os.path.join(d, ".cargo", "config.toml"), "w") as f:
        f.write("[net]\noffline = true\n")
    with open(os.path.join(d, "src", "main.rs"), "w") as f:
        f.write(main)
    return d, main, prov


def run_harness(d, main, name, h, timeout_s):
    os.makedirs(CACHE, exist_ok=True)
    key = hashlib.sha256(("\0".join([main, name, h, kani_version()])).encode()).hexdigest()
    cpath = os.path.join(CACHE, "kani_" + key + ".json")
    if os.path.exists(cpath):
        try:
            with open(cpath) as f:
                c = json.load(f)
            c["cached"] = True
            return c
        except Exception:
            pass
    t0 = time.time()
    env = dict(os.environ, CARGO_NET_OFFLINE="true")
    cmd = ["cargo", "kani", "--harness", "verif_harness::" + h]
    try:
        p = subprocess.run(cmd, cwd=d, capture_output=True, text=True, timeout=timeout_s, env=env)
        out = p.stdout + p.stderr
        timed_out = False
    except subprocess.TimeoutExpired as e:
        out = (e.stdout or b"").decode(errors="replace") if isinstance(e.stdout, bytes) else (e.stdout or "")
        timed_out = True
        subprocess.run(["pkill", "-9", "-f", "cbmc"], capture_output=True)
    dt = time.time() - t0
    res = {"harness": name + "::" + h, "ms": int(dt * 1000), "cmd": " ".join(cmd), "cached": False}
    if timed_out:
        res.update(status="undecided", message="kani timed out after %ds" % timeout_s)
        return res  # not cached: a time-out says nothing
    if "VERIFICATION:- SUCCESSFUL" in out:
        mm = re.search(r"\*\* (\d+) of (\d+) failed", out)
        res.update(status="ok", checks=int(mm.group(2)) if mm else None)
    elif "VERIFICATION:- FAILED" in out and ("out of memory" in out or "CBMC failed" in out or not re.search(r"Failed Checks: ", out)):
        # CBMC gave up (memory, internal failure): that decides nothing
        res.update(status="undecided", message="CBMC did not finish (out of memory / internal failure)")
        return res
    elif "VERIFICATION:- FAILED" in out:
        fails = re.findall(r"Failed Checks: (.*)", out)
        res.update(status="fail", message="; ".join(fails[:4])[:400], expr=fails[0][:200] if fails else "")
        res["safety"] = not any("assertion failed:" in x for x in fails)
        # CBMC's concrete values, when it prints them
        res["trace_tail"] = out[-1500:]
    else:
        res.update(status="undecided", message="kani did not reach a verdict: " + out[-300:].replace("\n", " | "))
        return res
    with open(cpath, "w") as f:
        json.dump(res, f)
    return res


def run(names, tier):
    results = []
    for name in names:
        spec = SETS[name]
        if tier == "quick" and not spec["quick"]:
            continue
        try:
            d, main, prov = generate(name)
        except (extract.ExtractError, rs.ScanError, OSError) as e:
            results.append({"harness": name, "status": "undecided", "message": "extract: %s" % e, "bounded": spec["bounded"], "bound": spec["bound"]})
            continue
        for h in spec["harnesses"]:
            r = run_harness(d, main, name, h, 240 if tier == "quick" else 900)
            r["bounded"] = spec["bounded"]
            r["bound"] = spec["bound"]
            r["provenance"] = prov
            results.append(r)
        shutil.rmtree(os.path.join(d, "target"), ignore_errors=True)
    return results
