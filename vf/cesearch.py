"""Directed counterexample search and replay on the REAL code.

Verus gives no counterexample.  When an obligation of a builtin is violated, this module builds the
replay binary (/verif/replay, linking /repo/quiver-core by path, so it is the current working tree
that runs), calls the builtin on the boundary grid named in C12 (0, +-1, 2^31, 2^32, 2^61, 2^63,
2^64-1, beyond; empty and odd-sized binaries; every rope shape of equal content) and compares with a
plain Python model (unbounded ints, flat bytes).  The search only DECORATES a violation with a
failing input; it never decides.  In the thorough tier the same grid is run for every pure builtin as
evidence that the contracts' reference models match observed behaviour."""
import itertools
import json
import math
import os
import random
import shutil
import subprocess

from . import extract

ROOT = extract.ROOT
BUILD = os.path.join(ROOT, "build", "replay")
MAXB = 16 * 1024 * 1024
I64MIN, I64MAX = -(1 << 63), (1 << 63) - 1
U64MAX = (1 << 64) - 1

SHAPES = ["literal", "concat", "slice", "repeat", "zero", "concat3", "prefix", "suffix", "nested", "nested_tail", "nested_concat", "head_tiled"]


def build_replay():
    os.makedirs(BUILD, exist_ok=True)
    for name in ("src", "Cargo.toml"):
        dst = os.path.join(BUILD, name)
        if os.path.isdir(dst):
            shutil.rmtree(dst)
        elif os.path.exists(dst):
            os.remove(dst)
    shutil.copytree(os.path.join(ROOT, "replay", "src"), os.path.join(BUILD, "src"))
    with open(os.path.join(ROOT, "replay", "Cargo.toml")) as f:
        cargo = f.read().replace("/repo/quiver-core", os.path.join(extract.REPO, "quiver-core"))
    with open(os.path.join(BUILD, "Cargo.toml"), "w") as f:
        f.write(cargo)
    for name in ("Cargo.lock", "rust-toolchain.toml"):
        src = os.path.join(extract.REPO, name)
        if os.path.exists(src):
            shutil.copy(src, os.path.join(BUILD, name))
    env = dict(os.environ, CARGO_NET_OFFLINE="true")
    p = subprocess.run(["cargo", "build", "--offline"], cwd=BUILD, capture_output=True, text=True, env=env, timeout=1800)
    if p.returncode != 0:
        raise RuntimeError("replay crate does not build: " + p.stderr[-600:])
    return os.path.join(BUILD, "target", "debug", "verif_replay")


CALL_TIMEOUT_S = 20  # a builtin call on a grid input takes milliseconds; silence this long is a hang
MEM_LIMIT = 6 << 30  # address-space cap of the replay process (a runaway collect() must not take the sandbox down)
MAX_HANGS_PER_BUILTIN = 2


def _limit_mem():
    import resource

    resource.setrlimit(resource.RLIMIT_AS, (MEM_LIMIT, MEM_LIMIT))


def run_calls(binary, calls):
    """Runs the calls on the replay binary in streaming mode.  A call that makes the process die (abort, stack
    overflow, allocation failure under the memory cap) is reported as {"abort": ..}; one that produces nothing for
    CALL_TIMEOUT_S seconds is reported as {"hang": ..} and the process is restarted after it.  After
    MAX_HANGS_PER_BUILTIN hangs/aborts of one builtin its remaining calls are skipped ({"skipped": true})."""
    import queue
    import threading

    res = [None] * len(calls)
    bad = {}
    k = 0
    while k < len(calls):
        # skip calls of builtins that already hung / aborted too often
        while k < len(calls) and bad.get(calls[k].get("builtin"), 0) >= MAX_HANGS_PER_BUILTIN:
            res[k] = {"skipped": True}
            k += 1
        if k >= len(calls):
            break
        chunk_end = min(len(calls), k + 400)
        chunk = calls[k:chunk_end]
        p = subprocess.Popen([binary, "--stream"], stdin=subprocess.PIPE, stdout=subprocess.PIPE, stderr=subprocess.PIPE, text=True, preexec_fn=_limit_mem)
        q = queue.Queue()

        def reader(pp=p, qq=q):
            for line in pp.stdout:
                qq.put(line)
            qq.put(None)

        t = threading.Thread(target=reader, daemon=True)
        t.start()
        try:
            p.stdin.write(json.dumps(chunk))
            p.stdin.close()
        except BrokenPipeError:
            pass
        done = 0
        verdict = None
        while done < len(chunk):
            name = chunk[done].get("builtin")
            if bad.get(name, 0) >= MAX_HANGS_PER_BUILTIN:
                # cannot skip inside a running process: restart after marking
                verdict = "restart"
                break
            try:
                line = q.get(timeout=CALL_TIMEOUT_S)
            except queue.Empty:
                verdict = "hang"
                break
            if line is None:
                verdict = "abort"
                break
            res[k + done] = json.loads(line)
            done += 1
        if verdict in ("hang", "abort", "restart"):
            try:
                p.kill()
            except OSError:
                pass
            err = ""
            try:
                err = (p.stderr.read() or "")[-200:]
            except Exception:
                pass
            if verdict == "hang":
                res[k + done] = {"hang": "no result within %d s" % CALL_TIMEOUT_S}
                bad[chunk[done].get("builtin")] = bad.get(chunk[done].get("builtin"), 0) + 1
                done += 1
            elif verdict == "abort":
                res[k + done] = {"abort": err or "process died"}
                bad[chunk[done].get("builtin")] = bad.get(chunk[done].get("builtin"), 0) + 1
                done += 1
        p.wait()
        k += done
    return res


# ---------------------------------------------------------------------------------------------
# value specs


def I(n):
    return {"int": str(n)}


def B(b, shape="literal"):
    return {"bin": {"hex": bytes(b).hex(), "shape": shape}}


def T(*xs):
    return {"tuple": list(xs)}


# ---------------------------------------------------------------------------------------------
# reference models: return ("int", n) | ("bin", bytes) | ("nil",) | ("err",) | ("same", bytes)

ERR = ("err",)
NIL = ("nil",)


def be(b):
    return int.from_bytes(b, "big")


def m_binary_new(n):
    return ("bin", bytes(n)) if 0 <= n <= MAXB else ERR


def m_binary_length(b):
    return ("int", len(b))


def m_binary_concat(a, b):
    return ("bin", a + b) if len(a) + len(b) <= MAXB else ERR


def m_binary_repeat(b, c):
    if c < 0 or c > U64MAX or len(b) * c > MAXB:
        return ERR
    return ("bin", b * c if len(b) else b"")


def m_binary_and(a, b):
    return ("bin", bytes(x & y for x, y in zip(a, b)))


def _pad(a, n):
    return a + bytes(n - len(a))


def m_binary_or(a, b):
    n = max(len(a), len(b))
    return ("bin", bytes(x | y for x, y in zip(_pad(a, n), _pad(b, n))))


def m_binary_xor(a, b):
    n = max(len(a), len(b))
    return ("bin", bytes(x ^ y for x, y in zip(_pad(a, n), _pad(b, n))))


def m_binary_not(b):
    return ("bin", bytes(x ^ 0xFF for x in b))


def m_binary_shift(b, k):
    if not (I64MIN <= k <= I64MAX):
        return ERR
    n = 8 * len(b)
    v = be(b)
    if k >= 0:
        v = (v << k) & ((1 << n) - 1) if k < n else 0
    else:
        v = v >> (-k) if -k < n else 0
    return ("bin", v.to_bytes(len(b), "big"))


def m_binary_popcount(b):
    return ("int", sum(bin(x).count("1") for x in b))


def m_binary_get(b, off, bit, n):
    if not (0 <= bit <= 7 and 1 <= n <= 64 and off >= 0 and 8 * off + bit + n <= 8 * len(b)):
        return ERR
    total = 8 * len(b)
    start = 8 * off + bit
    return ("int", (be(b) >> (total - start - n)) & ((1 << n) - 1))


def m_binary_set(b, off, bit, v, n):
    if not (0 <= bit <= 7 and 1 <= n <= 64 and off >= 0 and 8 * off + bit + n <= 8 * len(b)):
        return ERR
    if not (0 <= v <= I64MAX and v < (1 << n)):
        return ERR
    total = 8 * len(b)
    sh = total - (8 * off + bit) - n
    x = be(b)
    x = (x & ~(((1 << n) - 1) << sh)) | (v << sh)
    return ("bin", x.to_bytes(len(b), "big"))


def m_binary_slice(b, s, e):
    if not (0 <= s <= e <= len(b)):
        return ERR
    return ("bin", b[s:e])


def m_binary_index(b, byte, off):
    if not (0 <= byte <= 255 and 0 <= off <= U64MAX):
        return ERR
    k = b.find(bytes([byte]), off) if off <= len(b) else -1
    return ("int", k) if k >= 0 else NIL


def m_binary_hash32(b):
    h = 2166136261
    for x in b:
        h = ((h ^ x) * 16777619) & 0xFFFFFFFF
    return ("int", h)


def m_binary_hash64(b):
    h = 14695981039346656037
    for x in b:
        h = ((h ^ x) * 1099511628211) & U64MAX
    return ("int", h - (1 << 64) if h >= (1 << 63) else h)


def m_binary_append(b, v, nb):
    if not (1 <= nb <= 8 and 0 <= v <= I64MAX and v < (1 << (8 * nb)) and len(b) + nb <= MAXB):
        return ERR
    return ("bin", b + v.to_bytes(nb, "big"))


def tdiv(a, b):
    q = abs(a) // abs(b)
    return q if (a >= 0) == (b > 0) or a == 0 else -q


def wrap64(x):
    x &= U64MAX
    return x - (1 << 64) if x >= (1 << 63) else x


def in64(*xs):
    return all(I64MIN <= x <= I64MAX for x in xs)


def m_integer_abs(a):
    return ("int", abs(a))


def m_integer_sqrt(a):
    return ("int", math.isqrt(a)) if a >= 0 else ERR


def m_integer_add(a, b):
    return ("int", a + b)


def m_integer_subtract(a, b):
    return ("int", a - b)


def m_integer_multiply(a, b):
    return ("int", a * b)


def m_integer_divide(a, b):
    return ("int", tdiv(a, b)) if b != 0 else ERR


def m_integer_modulo(a, b):
    return ("int", a - b * tdiv(a, b)) if b != 0 else ERR


def m_integer_gcd(a, b):
    return ("int", math.gcd(a, b))


def m_integer_compare(a, b):
    return ("int", (a > b) - (a < b))


def m_integer_and(a, b):
    return ("int", wrap64(a & b)) if in64(a, b) else ERR


def m_integer_or(a, b):
    return ("int", wrap64(a | b)) if in64(a, b) else ERR


def m_integer_xor(a, b):
    return ("int", wrap64(a ^ b)) if in64(a, b) else ERR


def m_integer_not(a):
    return ("int", -a - 1) if in64(a) else ERR


def m_integer_shift(v, k):
    if not in64(v, k):
        return ERR
    if k == 0:
        return ("int", v)
    if k >= 64:
        return ("int", 0)
    if k <= -64:
        return ("int", 0 if v >= 0 else -1)
    if k > 0:
        return ("int", wrap64(v << k))
    return ("int", v >> (-k))


def m_integer_popcount(a):
    return ("int", bin(a & U64MAX).count("1")) if in64(a) else ERR


def lanes(b, w):
    return [int.from_bytes(b[i : i + w], "little", signed=True) for i in range(0, len(b), w)]


def fits(v, w):
    return -(1 << (8 * w - 1)) <= v < (1 << (8 * w - 1))


def m_vector_get(b, w, i):
    if w not in (4, 8):
        return ERR
    if len(b) % w != 0 or i < 0 or (i + 1) * w > len(b):
        return NIL
    return ("int", lanes(b, w)[i])


def m_vector_push(b, w, v):
    if w not in (4, 8):
        return ERR
    if not fits(v, w) or len(b) % w != 0:
        return NIL
    if len(b) + w > MAXB:
        return ERR
    return ("bin", b + v.to_bytes(w, "little", signed=True))


def m_vector_sum(b, w):
    if w not in (4, 8):
        return ERR
    return ("int", sum(lanes(b, w))) if len(b) % w == 0 else NIL


def m_vector_dot(a, b, w):
    if w not in (4, 8):
        return ERR
    if len(a) != len(b) or len(a) % w != 0:
        return NIL
    return ("int", sum(x * y for x, y in zip(lanes(a, w), lanes(b, w))))


def _elementwise(op):
    def f(a, b, w):
        if w not in (4, 8):
            return ERR
        if len(a) != len(b) or len(a) % w != 0:
            return NIL
        out = b""
        for x, y in zip(lanes(a, w), lanes(b, w)):
            r = op(x, y)
            if not (I64MIN <= r <= I64MAX) or not fits(r, w):
                return NIL
            out += r.to_bytes(w, "little", signed=True)
        return ("bin", out)

    return f


def _compare(pred):
    def f(a, b, w):
        if w not in (4, 8):
            return ERR
        if len(a) != len(b) or len(a) % w != 0:
            return NIL
        return ("bin", bytes(1 if pred(x, y) else 0 for x, y in zip(lanes(a, w), lanes(b, w))))

    return f


def m_vector_take(d, w, mask):
    if w not in (4, 8):
        return ERR
    if len(d) % w != 0 or len(mask) != len(d) // w:
        return NIL
    out = b""
    for i, s in enumerate(mask):
        if s:
            out += d[i * w : (i + 1) * w]
    return ("bin", out)


# ---------------------------------------------------------------------------------------------
# grids

INTS = [0, 1, -1, 2, 3, 4, 7, 8, 9, 63, 64, 65, 255, 256, (1 << 31) - 1, 1 << 31, (1 << 32) - 1, 1 << 32, (1 << 32) + 1,
        1 << 61, (1 << 63) - 1, 1 << 63, U64MAX, 1 << 64, 1 << 70, -(1 << 31), -(1 << 31) - 1, -(1 << 32), -(1 << 63), -(1 << 63) - 1, -(1 << 64)]
# around perfect squares (the natural boundaries of integer_sqrt): k*k - 1, k*k, k*k + 1 for k at the float/word edges
SQUARES = [k * k + d for k in (3, 4, 1 << 16, (1 << 26) + 1, (1 << 26) + 2, 94906265, 94906266, 1 << 31, (1 << 32) - 1, 1 << 32, 3037000499, 3037000500, 1 << 40) for d in (-1, 0, 1)]
SMALL = [0, 1, 2, 3, 4, 5, 7, 8, 9, 15, 16, 17]
BINS = [b"", b"\x00", b"\xff", b"\x01\x02", b"\xff\x00", b"\x00\x00\x00\x00", bytes(range(1, 9)), bytes(range(1, 9)) + b"\xff", bytes(9),
        b"\xf0" + bytes(7) + b"\x05", b"\x80" + bytes(7), b"\xff" * 8, bytes(range(1, 17)), b"\xab\xab\xab\xab", b"\x01\x02\x01\x02\x01\x02", b"\x7f\xff\xff\xff\xff\xff\xff\xff" * 2,
        # packed lanes at the extremes: i64::MIN x2 / x3, i64::MAX x2, i32::MIN x2, mixed
        (bytes(7) + b"\x80") * 2, (bytes(7) + b"\x80") * 3, (b"\xff" * 7 + b"\x7f") * 2, (bytes(3) + b"\x80") * 2, (b"\xff" * 3 + b"\x7f") * 2,
        bytes(7) + b"\x80" + b"\xff" * 7 + b"\x7f",
        # one odd byte followed by a periodic tail (a tile at a non-zero offset when built as head_tiled)
        b"\x01" + b"\xaa\xbb" * 3, b"\x07" + b"\x00" * 7 + (b"\x09" + b"\x00" * 7) * 2 + b"\x00" * 0]

# name -> (model, [parameter kinds]); kinds: 'b' binary, 'i' any int, 's' small int, 'w' width
BUILTINS = {
    "binary_new": (m_binary_new, ["n"]),
    "binary_length": (m_binary_length, ["b"]),
    "binary_concat": (m_binary_concat, ["b", "b"]),
    "binary_repeat": (m_binary_repeat, ["b", "i"]),
    "binary_and": (m_binary_and, ["b", "b"]),
    "binary_or": (m_binary_or, ["b", "b"]),
    "binary_xor": (m_binary_xor, ["b", "b"]),
    "binary_not": (m_binary_not, ["b"]),
    "binary_shift": (m_binary_shift, ["b", "i"]),
    "binary_popcount": (m_binary_popcount, ["b"]),
    "binary_get": (m_binary_get, ["b", "o", "t", "c"]),
    "binary_set": (m_binary_set, ["b", "o", "t", "v", "c"]),
    "binary_slice": (m_binary_slice, ["b", "o", "o"]),
    "binary_index": (m_binary_index, ["b", "y", "o"]),
    "binary_hash32": (m_binary_hash32, ["b"]),
    "binary_hash64": (m_binary_hash64, ["b"]),
    "binary_append": (m_binary_append, ["b", "v", "k"]),
    "integer_abs": (m_integer_abs, ["i"]),
    "integer_sqrt": (m_integer_sqrt, ["q"]),
    "integer_add": (m_integer_add, ["i", "i"]),
    "integer_subtract": (m_integer_subtract, ["i", "i"]),
    "integer_multiply": (m_integer_multiply, ["i", "i"]),
    "integer_divide": (m_integer_divide, ["i", "i"]),
    "integer_modulo": (m_integer_modulo, ["i", "i"]),
    "integer_gcd": (m_integer_gcd, ["i", "i"]),
    "integer_compare": (m_integer_compare, ["i", "i"]),
    "integer_and": (m_integer_and, ["i", "i"]),
    "integer_or": (m_integer_or, ["i", "i"]),
    "integer_xor": (m_integer_xor, ["i", "i"]),
    "integer_not": (m_integer_not, ["i"]),
    "integer_shift": (m_integer_shift, ["i", "i"]),
    "integer_popcount": (m_integer_popcount, ["i"]),
    "vector_get": (m_vector_get, ["b", "w", "i"]),
    "vector_push": (m_vector_push, ["b", "w", "i"]),
    "vector_sum": (m_vector_sum, ["b", "w"]),
    "vector_dot": (m_vector_dot, ["b", "b", "w"]),
    "vector_add": (_elementwise(lambda x, y: x + y), ["b", "b", "w"]),
    "vector_subtract": (_elementwise(lambda x, y: x - y), ["b", "b", "w"]),
    "vector_multiply": (_elementwise(lambda x, y: x * y), ["b", "b", "w"]),
    "vector_less_than": (_compare(lambda x, y: x < y), ["b", "b", "w"]),
    "vector_equal": (_compare(lambda x, y: x == y), ["b", "b", "w"]),
    "vector_greater_than": (_compare(lambda x, y: x > y), ["b", "b", "w"]),
    "vector_take": (m_vector_take, ["b", "w", "m"]),
}

KIND = {
    "i": INTS,
    "n": [0, 1, 2, 17, 4096, MAXB + 1, -1, 1 << 32, 1 << 63, U64MAX, 1 << 64, 1 << 70],
    "o": [0, 1, 2, 7, 8, 9, 16, 17, -1, 1 << 31, 1 << 32, 1 << 61, (1 << 63) - 1, 1 << 63, U64MAX, 1 << 64],
    "t": [0, 1, 4, 7, 8, -1, 1 << 32, 1 << 64],
    "c": [1, 2, 7, 8, 9, 32, 57, 63, 64, 65, 0, -1, 1 << 32, 1 << 64],
    "v": [0, 1, 0x7F, 0xFF, 0x100, (1 << 31), (1 << 32) - 1, (1 << 60) - 1, (1 << 63) - 1, 1 << 63, U64MAX, -1, 1 << 64],
    "k": [1, 2, 4, 7, 8, 0, 9, -1, 1 << 32, 1 << 64],
    "y": [0, 1, 2, 0xAB, 0xFF, 256, -1, 1 << 32, 1 << 64],
    "w": [4, 8, 0, 1, 2, 16, -4, 1 << 32, 1 << 64],
    "q": INTS + SQUARES,
    "b": BINS,
    # masks: canonical 0/1 and non-canonical ones (any non-zero byte selects), incl. masks whose bytes SUM to the lane count
    "m": [b"", b"\x00", b"\x01", b"\x01\x00", b"\x00\x01", b"\x01\x01", b"\x00\x02\x00\x01", b"\x02\x00", b"\x00\x02", b"\xff\x00", b"\x00\x03\x00", b"\x02\x00\x01\x01", b"\x02", b"\x80\x80"],
}


def spec_of(kind, v, shape):
    if kind in ("b", "m"):
        return B(v, shape)
    return I(v)


def calls_for(name, rng, cap):
    model, kinds = BUILTINS[name]
    lists = [KIND[k] for k in kinds]
    combos = list(itertools.product(*lists))
    if len(combos) > cap:
        combos = rng.sample(combos, cap)
    has_bin = any(k in ("b", "m") for k in kinds)
    out = []
    for combo in combos:
        for shape in SHAPES if has_bin else ["literal"]:
            args = [spec_of(k, v, shape) for k, v in zip(kinds, combo)]
            arg = args[0] if len(args) == 1 else T(*args)
            out.append((name, combo, shape, {"builtin": name, "arg": arg}))
    return out


def agrees(expect, got):
    if got is None or "skipped" in got:
        return True  # not run (its builtin already hung / aborted on other inputs): no verdict from this call
    if "panic" in got or "abort" in got or "hang" in got:
        return False
    if expect[0] == "err":
        return "err" in got
    if "ok" not in got:
        return False
    v = got["ok"]
    if expect[0] == "int":
        return v.get("int") == str(expect[1])
    if expect[0] == "bin":
        return v.get("bin") == expect[1].hex()
    if expect[0] == "nil":
        return v.get("nil") is True
    return False


def grid(names, seed, cap=250):
    rng = random.Random(seed)
    binary = build_replay()
    report = {"calls": 0, "disagreements": [], "per_builtin": {}, "distinct_inputs": 0}
    for name in names:
        if name not in BUILTINS:
            continue
        cs = calls_for(name, rng, cap)
        res = run_calls(binary, [c[3] for c in cs])
        model = BUILTINS[name][0]
        bad = 0
        for (nm, combo, shape, call), got in zip(cs, res):
            expect = model(*combo)
            if not agrees(expect, got):
                bad += 1
                if bad <= 6 and len(report["disagreements"]) < 60:
                    report["disagreements"].append(
                        {"builtin": nm, "args": [a.hex() if isinstance(a, (bytes, bytearray)) else str(a) for a in combo], "rope_shape": shape,
                         "expected": [expect[0]] + [x.hex() if isinstance(x, (bytes, bytearray)) else str(x) for x in expect[1:]], "observed": got, "call": call}
                    )
        report["per_builtin"][name] = {"calls": len(cs), "disagreements": bad}
        report["calls"] += len(cs)
        report["distinct_inputs"] += len({(c[1], c[2]) for c in cs})
    return report


OBLIGATION_BUILTINS = {
    "rope::": ["binary_get", "binary_slice", "binary_concat", "binary_repeat", "binary_index", "binary_or", "binary_length", "binary_set", "vector_sum"],
    "heap::Executor::allocate_binary": ["binary_new", "binary_concat", "binary_repeat"],
    "heap::Executor::get_binary_data": ["binary_length"],
    "heap::Executor::materialize": ["vector_sum", "vector_get", "vector_dot"],
    "builtins_binary::bigint_to": ["binary_get", "binary_slice", "binary_index"],
    "builtins_integer::extract_two": ["integer_add", "integer_and", "integer_shift", "integer_divide"],
    "builtins_integer::bigint_to_i64": ["integer_and", "integer_not", "integer_shift"],
    "builtins_vector::checked_width": ["vector_get", "vector_sum"],
    "builtins_vector::elementwise": ["vector_add", "vector_subtract", "vector_multiply"],
    "builtins_vector::compare": ["vector_less_than", "vector_equal", "vector_greater_than"],
    "kani_kernels::lane_fits_push_lane": ["vector_get", "vector_push", "vector_sum"],
    "kani_kernels::find_byte": ["binary_index"],
}


def builtins_of(oid):
    m = None
    for pre, names in OBLIGATION_BUILTINS.items():
        if oid.startswith(pre):
            m = names
    q = oid.split("::")[-1]
    if q.startswith("builtin_"):
        return [q[len("builtin_"):]]
    return m or []


_MEMO = {}


def search(oid, fail, seed):
    names = builtins_of(oid)
    key = (tuple(names), seed)
    if key in _MEMO:
        return _MEMO[key]
    r = _search(oid, fail, seed, names)
    _MEMO[key] = r
    return r


def _search(oid, fail, seed, names):
    if not names:
        return {"found": False, "note": "no builtin-level driver for this obligation (executor internals); the replay file carries the verifier's diagnostic only"}
    rep = grid(names, seed, cap=6000 if len(names) == 1 else 1500)
    if rep["disagreements"]:
        d = rep["disagreements"][0]
        return {"found": True, "input": d, "others": rep["disagreements"][1:6], "calls_tried": rep["calls"]}
    return {"found": False, "calls_tried": rep["calls"], "note": "boundary grid on the real code agrees with the reference model for %s" % ", ".join(names)}


def replay(path):
    with open(path) as f:
        rep = json.load(f)
    print("replay of %s: obligation %s (%s) - %s" % (path, rep.get("obligation"), rep.get("class"), rep.get("verifier_message")))
    print("  failing expression: %s" % rep.get("failing_expression"))
    rc = 0
    ce = rep.get("counterexample") or {}
    if ce.get("found") and (ce["input"].get("builtin") or "").startswith("program:"):
        from . import progsearch

        quiv = progsearch.build_quiv()
        src = ce["input"]["args"][0]
        print("  program: %s" % src)
        print("  recorded: %s" % ce["input"]["observed"].get("why"))
        r = progsearch.search_all()
        still = [f for f in r["failures"] if f["source"] == src]
        print("  => %s" % ("REPRODUCED: " + still[0]["why"] if still else "passes now (not reproduced)"))
        return 1 if still else 0
    if ce.get("found"):
        binary = build_replay()
        call = ce["input"]["call"]
        got = run_calls(binary, [call])[0]
        print("  input: %s(%s) rope shape %s" % (ce["input"]["builtin"], ", ".join(ce["input"]["args"]), ce["input"]["rope_shape"]))
        print("  expected (reference model): %s" % ce["input"]["expected"])
        print("  observed now on /repo:      %s" % json.dumps(got))
        name = ce["input"]["builtin"]
        if name == "@transfer":
            ok = got is not None and "ok" in got and got["ok"].get("same") is True
            print("  => %s" % ("both ends agree now (not reproduced)" if ok else "REPRODUCED"))
            return 0 if ok else 1
        model, kinds = BUILTINS[name]
        # re-evaluate agreement on the current tree
        args = []
        for k, a in zip(kinds, ce["input"]["args"]):
            args.append(bytes.fromhex(a) if k in ("b", "m") else int(a))
        ok = agrees(model(*args), got)
        print("  => %s" % ("agrees with the model now (not reproduced)" if ok else "REPRODUCED"))
        rc = 0 if ok else 1
    else:
        print("  no concrete failing input was found; re-verifying the obligation")
    # re-verify just that unit and report the obligation's status
    from . import runner

    unit = rep.get("obligation", "").split("::", 1)[0]
    if os.path.exists(extract.unit_path(unit)):
        r = runner.run_unit(unit)
        ob = r.obligations.get(rep["obligation"])
        if ob is not None:
            print("  verifier on the current tree: %s" % ob["status"])
            for f in ob["failures"][:5]:
                print("     [%s] %s | %s" % (f["class"], f["message"], f.get("expr", "")[:120]))
            if ob["status"] == "fail":
                rc = 1
        for x in r.infra:
            print("  undecided: %s" % x)
    return rc


# ---------------------------------------------------------------------------------------------
# cross-heap transfer on the real code (bounded stand-in for unit `transfer`)


def FN(*caps):
    return {"fn": list(caps)}


def transfer_values():
    b1 = B(b"\x0a\x1b\x2c\x3d")
    b2 = B(b"\xde\xad", "concat")
    b3 = B(b"\x01\x02\x03\x04\x05", "slice")
    b4 = B(b"\x00\x00\x00", "zero")
    e = B(b"")
    vals = [
        b1, I(7), {"nil": True}, {"ref": 42},
        T(b1, I(7)), T(I(7), b1), T(b1, b2), T(b1, b1), T(b2, b1, b2),
        FN(b1), FN(b1, b2), FN(), FN(I(1)),
        T(FN(b1), I(7)), T(I(7), FN(b1)), T(FN(b1), FN(b2)), T(FN(b1), b2), T(FN(b1), {"nil": True}),
        T(T(b1), I(1)), T(T(FN(b1)), I(1)), T(T(T(b3))), FN(T(b1, b2)), FN(FN(b1)), FN(T(FN(b3), b4)),
        T(b1, b2, b3, b4, e), T(e, e), FN(e), T(FN(b1, b1), b1), T(I(1), I(2), I(3)), T(FN(I(1)), I(2)),
        T(FN(T(b1, FN(b2))), T(b3, FN(b4, b1)), b2),
    ]
    return vals


def transfer_grid():
    """Every structured value above is built in one heap, extracted, injected into another (populated) heap on the
    REAL code; the two ends must render identically and the receiver's own binaries must be untouched."""
    binary = build_replay()
    calls = [{"builtin": "@transfer", "arg": v} for v in transfer_values()]
    res = run_calls(binary, calls)
    dis = []
    for c, got in zip(calls, res):
        ok = got is not None and "ok" in got and got["ok"].get("same") is True
        if not ok:
            dis.append({"builtin": "@transfer", "args": [json.dumps(c["arg"])[:300]], "rope_shape": "-", "expected": ["same content at both ends, receiver untouched"], "observed": got, "call": c})
    return {"calls": len(calls), "disagreements": dis}
