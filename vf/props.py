"""Which obligations belong to which property (DESIGN.md §2.3)."""

ALL = ("safety", "functional", "proof-internal")

# unit -> which functions (None = all) and which failure classes count for the property
PROPS = {
    "C12": {
        "title": "Builtins are total and agree with simple reference models",
        "units": {
            "rope": (None, ALL),
            "heap": (
                [
                    "Executor::get_binary_data",
                    "Executor::allocate_binary_data",
                    "Executor::allocate_binary",
                    "Executor::materialize",
                    "Executor::get_constant",
                    "Executor::get_heap_binary",
                ],
                ALL,
            ),
            "builtins_binary": (None, ALL),
            "builtins_integer": (None, ALL),
            "builtins_vector": (None, ALL),
        },
        "kani": ["lane_fits_push_lane", "find_byte"],
    },
    "C15": {
        "title": "workers never crash (panic-freedom of builtins, heap operations and hot instruction handlers)",
        "units": {
            "rope": (None, ("safety",)),
            # heap accounting: a count that drifts from what is rooted is a worker panic in a debug build (the
            # refcount assertion at process completion in Executor::step, the underflow / use-after-free
            # debug_assert!s in release / retain / get_binary_data), so for these units every class counts
            "heap": (None, ALL),
            "handlers": (None, ALL, "crash"),
            # units that mix select / scheduling semantics with accounting: every safety obligation, and of the others
            # those whose failing conjunct is about the counts (a drift is a debug-build panic) or about failure
            # containment (topic "crash", cli._topic_ok)
            "coldpath": (None, ALL, "crash"),
            "select": (None, ALL, "crash"),
            "step": (None, ALL, "crash"),
            # the cross-worker half of failure propagation, as far as it is under contract (quiver-environment/src/worker.rs)
            "worker": (None, ALL),
            "equality": [(["Executor::handle_equal"], ALL, "crash"), (None, ("safety",))],
            "transfer": (None, ("safety",)),
            "builtins_binary": (None, ("safety",)),
            "builtins_integer": (None, ("safety",)),
            "builtins_vector": (None, ("safety",)),
        },
        "kani": ["lane_fits_push_lane"],
    },
    "C05": {
        "title": "Select follows its documented semantics (one entry of the Select instruction, function-level)",
        "units": {
            # the conjuncts that are not about the counts (topic "sem"): a leak in the select machinery is C06's
            "select": (None, ALL, "sem"),
            "coldpath": (
                [
                    "Executor::get_process",
                    "Executor::get_process_mut",
                    "Executor::complete_select",
                    "Executor::handle_select_timeout",
                    "Executor::handle_select_process",
                    "Executor::ensure_select_start_time",
                    "Executor::handle_select_continuation",
                    "Executor::mark_selecting",
                    # arrivals between entries: a message is appended at the back of the mailbox, an await answer is
                    # recorded; neither may touch the select state's cursors
                    "Executor::notify_message",
                    "Executor::notify_result",
                ],
                ALL,
                "sem",
            ),
            # the expiry wake-up: exactly the parked processes one of whose timeouts has run out go back to the run queue
            "step": (["Executor::check_expired_timeouts"], ALL, "sem"),
            # awaiting a process on this worker: registration of whoever is not finished, the answer's arrival
            "worker": (["Worker::query_and_await", "Worker::notify_result"], ALL, "sem"),
        },
        "kani": [],
    },
    "C06": {
        "title": "Binary heap accounting (function-level)",
        "units": {
            "heap": (None, ALL),
            "handlers": (None, ALL, "acct"),
            # only the conjuncts that speak about the heap and the counts (topic "acct"): a select-priority or
            # scheduling clause of the same contract belongs to C05 / C15
            "coldpath": (None, ALL, "acct"),
            "select": (None, ALL, "acct"),
            "step": (None, ALL, "acct"),
            "equality": (["Executor::handle_equal"], ALL, "acct"),
            "transfer": (None, ALL),
        },
        "kani": [],
    },
    "C13": {
        "title": "Equality is structural and construction-independent (the VM's comparator, function-level)",
        "units": {
            # the verdict and the stack effect (topic "sem"); handle_equal's balance conjuncts are C06's
            "equality": (["Executor::canonical_tuple", "Executor::values_equal", "Executor::handle_equal"], ALL, "sem"),
            "rope": (None, ALL),
            "heap": (["Executor::get_constant", "Executor::retain", "Executor::release", "Executor::push_value", "Executor::pop_value"], ALL),
        },
        "kani": [],
    },
    "C16": {
        "title": "Tail calls run in constant space (VM mechanism)",
        "units": {
            "heap": (
                [
                    "Executor::truncate_locals",
                    "Executor::push_value",
                    "Executor::pop_value",
                    "Executor::push_local",
                    "Executor::release",
                    "Executor::retain",
                    "Executor::process_pending_free",
                ],
                ALL,
            ),
            "handlers": (["Executor::handle_tail_call", "Frame::new"], ALL),
            # of step only the asserted fact that it begins by emptying the reclamation queue (topic "taint": a failed
            # assertion); its postconditions belong to C06 / C15
            "step": (["Executor::step"], ALL, "taint"),
        },
        "kani": [],
    },
}
