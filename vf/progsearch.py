"""Program-level bounded check on the REAL quiv binary (built from /repo's working tree).

It is NOT part of the deductive argument.  It serves two purposes:
  * decoration - when an obligation of the VM (units heap / handlers / coldpath) is violated, Verus gives no
    counterexample; a small corpus of Quiver programs is run on the real binary to look for a failing one;
  * a BOUNDED stand-in (thorough tier, labelled so, never counted as proved) for the halves of C16 and C06 that
    no contract within reach decides: what the compiler emits around tail calls (C16: peaks of frames, locals
    and operand stack compared at N and 50N, exactly the property's own quantifier) and the paths through
    worker.rs / step (C06: expected bytes after sharing, slicing, capturing, spawning, sending, selecting; a
    debug build also runs check_refcounts at every process completion and the use-after-free assertions, and
    a worker panic shows up as a time-out)."""
import os
import re
import subprocess

from . import extract

ROOT = extract.ROOT
TARGET = os.path.join(ROOT, "build", "quiv_target")


def build_quiv():
    env = dict(os.environ, CARGO_NET_OFFLINE="true", CARGO_TARGET_DIR=TARGET)
    p = subprocess.run(["cargo", "build", "--offline", "-p", "quiver-cli"], cwd=extract.REPO, capture_output=True, text=True, env=env, timeout=3600)
    if p.returncode != 0:
        raise RuntimeError("quiv does not build: " + p.stderr[-500:])
    return os.path.join(TARGET, "debug", "quiv")


def run_prog(quiv, src, profile=False, timeout=20):
    cmd = [quiv, "run"] + (["--profile"] if profile else []) + ["-e", src]
    try:
        p = subprocess.run(cmd, capture_output=True, text=True, timeout=timeout)
    except subprocess.TimeoutExpired as e:
        err = (e.stderr or b"")
        err = err.decode(errors="replace") if isinstance(err, bytes) else err
        return {"timeout": True, "stderr": err[-400:]}
    out = p.stdout.strip().split("\n")
    res = {"rc": p.returncode, "value": out[-1].strip() if out else "", "stderr": p.stderr[-400:]}
    if profile:
        m = re.search(r"Stack:\s*(\d+)\s*Locals:\s*(\d+)\s*Frames:\s*(\d+)", p.stdout.replace("\n", " "))
        if m:
            res["peaks"] = {"stack": int(m.group(1)), "locals": int(m.group(2)), "frames": int(m.group(3))}
    return res


# ---- C16: tail-recursive shapes; {N} is the iteration count -------------------------------------------------
TAIL_SHAPES = [
    ("self ^ countdown", "#{ f = #'int { | =0 => 0 | [~, 1] __integer_subtract__ ^ }, {N} f }", lambda n: "0"),
    ("self ^ with accumulator tuple", "#{ f = #['int, 'int] { | =[0, acc] => acc | =[n, acc] => [[n, 1] __integer_subtract__, [acc, n] __integer_add__] ^ }, [{N}, 0] f }", lambda n: str(n * (n + 1) // 2)),
    ("^ from a nested block in a branch", "#{ f = #'int { | =0 => 0 | =n => { [n, 1] __integer_subtract__ =m, m ^ } }, {N} f }", lambda n: "0"),
    ("^ carrying a growing binary", "#{ f = #['int, 'bin] { | =[0, b] => b __binary_length__ | =[n, b] => [[n, 1] __integer_subtract__, [b, 0x01] __binary_concat__] ^ }, [{N}, 0x] f }", lambda n: str(n)),
    ("^ dropping a scratch binary per iteration", "#{ f = #'int { | =0 => 0 | =n => { [0x01, 0x02] __binary_concat__ =scratch, [n, 1] __integer_subtract__ ^ } }, {N} f }", lambda n: "0"),
    ("^g into a second function, then ^ there", "#{ g = #'int { | =0 => 7 | [~, 1] __integer_subtract__ ^ }, f = #'int { [~, 1] __integer_add__ ^g }, {N} f }", lambda n: "7"),
    ("nilary server loop: step, ^", "#{ p = @{ !'int { | =0 => [] | =n => [n, 1] __integer_subtract__ . }, ^ }, {N} p, x = !p, 5 }", lambda n: "5"),
    ("nilary server loop: m ^ in a handler branch", "#{ p = @{ !'int { | =0 => Done | =n => { [n, 1] __integer_subtract__ =m, m ., m ^ } } }, {N} p, !p }", lambda n: "Done"),
    ("nilary server loop: [] ^", "#{ p = @{ !'int { | =0 => Done | =n => { [n, 1] __integer_subtract__ ., [] ^ } } }, {N} p, !p }", lambda n: "Done"),
]

# ---- C06: binaries shared, sliced, stored, captured, spawned, sent, selected --------------------------------
HEAP_PROGS = [
    ("shared in nested tuples", "#{ a = [0xaa, 0xbb] __binary_concat__, b = [0xcc, 0xdd] __binary_concat__, t = [a, [b, a]], t }", "[0xaabb, [0xccdd, 0xaabb]]"),
    ("captured by a closure", "#{ a = [0xaa, 0xbb] __binary_concat__, f = #{ a }, f }", "0xaabb"),
    ("sent to a process", "#{ a = [0xaa, 0xbb] __binary_concat__, p = @#{ !#'bin }, a p, !p }", "0xaabb"),
    ("two binaries in one message", "#{ a = [0xaa, 0xbb] __binary_concat__, b = [0xcc, 0xdd] __binary_concat__, p = @#{ !#['bin, 'bin] }, [a, b] p, !p }", "[0xaabb, 0xccdd]"),
    ("received through a filter function", "#{ a = [0xaa, 0xbb] __binary_concat__, p = @#{ ! [#'bin { =b => Ok }] }, a p, !p }", "0xaabb"),
    ("slice and repeat of a shared binary", "#{ a = [0xaa, 0xbb] __binary_concat__, b = [a, 1, 2] __binary_slice__, c = [a, 3] __binary_repeat__, [b, c, a] }", "[0xbb, 0xaabbaabbaabb, 0xaabb]"),
    ("one binary captured by two spawned closures", "#{ a = [0xaa, 0xbb] __binary_concat__, p = @#{ a __binary_length__ }, q = @#{ a }, [!p, !q] }", "[2, 0xaabb]"),
    ("two binaries captured by one spawned closure", "#{ a = [0xaa, 0xbb] __binary_concat__, b = [0xcc, 0xdd] __binary_concat__, p = @#{ [a, b] }, !p }", "[0xaabb, 0xccdd]"),
    ("three captures, reordered", "#{ a = [0xaa, 0xbb] __binary_concat__, b = [0xcc, 0xdd] __binary_concat__, c = [0xee, 0xff] __binary_concat__, p = @#{ [c, a, b] }, !p }", "[0xeeff, 0xaabb, 0xccdd]"),
    ("captured binary plus binary argument", "#{ a = [0xaa, 0xbb] __binary_concat__, b = [0xcc, 0xdd] __binary_concat__, p = b @#'bin { [a, $] }, !p }", "[0xaabb, 0xccdd]"),
    ("one binary both captured and passed as the argument of a spawned closure", "#{ a = [0xaa, 0xbb] __binary_concat__, p = a @#'bin { [a, $] }, !p }", "[0xaabb, 0xaabb]"),
    ("argument dropped while the same binary is still captured, then a fresh allocation", "#{ a = [0xaabb, 0xccdd] __binary_concat__, p = a @#'bin { !#'int, b = [0x1111, 0x2222] __binary_concat__, [a, b] }, 1 p, !p }", "[0xaabbccdd, 0x11112222]"),
    ("one binary captured under two names by a spawned closure", "#{ a = [0xaa, 0xbb] __binary_concat__, b = a, p = @#{ [a, b] }, !p }", "[0xaabb, 0xaabb]"),
    ("a tuple holding one binary twice sent to a process", "#{ a = [0xaa, 0xbb] __binary_concat__, p = @#{ !#['bin, 'bin] }, [a, a] p, !p }", "[0xaabb, 0xaabb]"),
    ("scratch binaries dropped by calls", "#{ f = #'int { =n [0x01, 0x02] __binary_concat__ =scratch, n }, [1 f, 2 f, 3 f] }", "[1, 2, 3]"),
    ("a higher-priority filter's message arrives while a lower-priority filter holds a binary message (D9; either arrival order yields 7)", "#{ loop = #'int { | =0 => 0 | [~, 1] __integer_subtract__ ^ }, p = @#{ x = ! [#'int { =n => Ok }, #'bin { =b => 600000 loop, Ok }], y = ! [#'bin, 500], z = ! [#'int, 500], 7 }, m1 = [0xaa, 0xbb] __binary_concat__, m1 p, 100000 loop, 5 p, !p }", "7"),
    ("a closure bound to a name is spawned, then the name goes out of scope (the spawn must give back what loading the closure retained)", "#{ g = #{ b = [0xaa, 0xbb] __binary_concat__, f = #{ b }, p = @f, !p }, x = g, y = [0x01, 0x02] __binary_concat__, [x, y] }", "[0xaabb, 0x0102]"),
    ("the same bound closure spawned twice", "#{ b = [0xaa, 0xbb] __binary_concat__, f = #{ b }, p = @f, q = @f, [!p, !q] }", "[0xaabb, 0xaabb]"),
    ("result awaited twice", "#{ q = @#{ 1 }, p = @#{ [0xaa, 0xbb] __binary_concat__ }, x = !p, y = !p, [x, y] }", "[0xaabb, 0xaabb]"),
    ("consequence-less branch yielding a heap binary, then dropped", "#{ { | [0x01, 0x02] __binary_concat__ | 0x03 }, 1 }", "1"),
    ("binary pinned against itself", "#{ a = [0xaa, 0xbb] __binary_concat__, x = a =&a, [x, a] }", "[Ok, 0xaabb]"),
    ("tuple holding a binary pinned against itself, then dropped", "#{ t = P[[0xaa, 0xbb] __binary_concat__], t =&t, 1 }", "1"),
    ("type test on a heap binary, then dropped", "#{ a = [0xaa, 0xbb] __binary_concat__, { | a ='bin => 1 | 2 } }", "1"),
    ("a list of 400 fresh binaries threaded through a tail-recursive loop, then read back", "#{ build = #['int, '%list<'bin>] { | =[0, acc] => acc | =[n, acc] => [[n, 1] __integer_subtract__, Cons[[0x, n, 2] __binary_append__, acc]] ^ }, sum = #['%list<'bin>, 'int] { | =[Nil, total] => total | =[Cons[head, rest], total] => [rest, [total, [head, 0, 0, 16] __binary_get__] __integer_add__] ^ }, xs = [400, %list.new] build, [xs, 0] sum }", "80200"),
    ("reuse after drop: loop of allocations then a fresh value", "#{ f = #'int { | =0 => [0xde, 0xad] __binary_concat__ | =n => { [0x01, 0x02] __binary_concat__ =scratch, [n, 1] __integer_subtract__ ^ } }, keep = [0xbe, 0xef] __binary_concat__, [keep, 300 f, keep] }", "[0xbeef, 0xdead, 0xbeef]"),
]


# ---- C13: pinned matches between values built in different ways -----------------------------------------------
EQ_PROGS = [
    ("integers, small and beyond 64 bit", "#{ a = 100000000000000000000000000, b = [10000000000000, 10000000000000] __integer_multiply__, c = [b, 1] __integer_add__, [a =&b, a =&c, 5 =5, 5 =6] }", "[Ok, [], Ok, []]"),
    ("binary: literal vs concat vs slice vs repeat", "#{ l = 0xaabbaabb, c = [0xaabb, 0xaabb] __binary_concat__, s = [0x00aabbaabb00, 1, 5] __binary_slice__, r = [0xaabb, 2] __binary_repeat__, [l =&c, c =&s, s =&r, r =&l, c =&c] }", "[Ok, Ok, Ok, Ok, Ok]"),
    ("binary: same length, one byte differs; prefix of the other", "#{ a = [0xaa, 0xbb] __binary_concat__, b = [0xaa, 0xbc] __binary_concat__, c = [0xaabbcc, 0, 2] __binary_slice__, d = 0xaabbcc, [a =&b, a =&c, a =&d, 0x =0x] }", "[[], Ok, [], Ok]"),
    ("binary: zero-filled vs literal zeros", "#{ z = 3 __binary_new__, [z =0x000000, z =0x0000, z =0x000001] }", "[Ok, [], []]"),
    ("tuples: same shape, fields built differently", "#{ a = P[x: 1, y: 0xaabb], b = P[x: 1, y: [0xaa, 0xbb] __binary_concat__], c = P[x: 1, y: 0xaabc], d = P[x: 2, y: 0xaabb], [a =&b, a =&c, a =&d] }", "[Ok, [], []]"),
    ("tuples: nested, and different names", "#{ a = A[1, B[0xaa, C[2]]], b = A[1, B[[0xaa, 0x] __binary_concat__, C[2]]], c = A[1, B[0xaa, D[2]]], [a =&b, a =&c] }", "[Ok, []]"),
    ("functions: same definition, captures equal by content or not", "#{ k = [0xaa, 0xbb] __binary_concat__, f = #{ k }, k2 = [0x00aabb, 1, 3] __binary_slice__, g = #{ k2 }, k3 = 0xaabc, h = #{ k3 }, [&f =&f, &f =&g, &f =&h] }", "[Ok, Ok, []]"),
    ("refs: a ref equals itself only", "#{ r = &%ref, a = r, b = r, [a =&a, a =&b] }", "[Ok, []]"),
    ("repeated comparisons leave the compared binaries intact", "#{ a = [0xaa, 0xbb] __binary_concat__, b = [0x00aabb, 1, 3] __binary_slice__, x = a =&b, y = a =&b, [x, y, a, b] }", "[Ok, Ok, 0xaabb, 0xaabb]"),
]


# ---- C05: select semantics - priority, filters, timeouts, what is left in the mailbox -------------------------
# (name, source, expected value, minimum wall-clock seconds or None).  Every program is deterministic: messages from one
# sender arrive in send order, and a later "sync" message makes sure the earlier ones are queued before the select.
SELECT_PROGS = [
    ("two finished processes: written order decides", "#{ p1 = @#{ 1 }, p2 = @#{ 2 }, x = !p1, y = !p2, ! [p2, p1] }", "2", None),
    ("timeout alone yields nil, not before its duration", "#{ x = ! [300], [x] }", "[[]]", 0.3),
    ("finished process written before an elapsed timeout", "#{ p = @#{ 7 }, x = !p, ! [p, 0] }", "7", None),
    ("elapsed timeout written before a finished process", "#{ p = @#{ 7 }, x = !p, y = ! [0, p], [y] }", "[[]]", None),
    ("unfinished process, then the timeout decides", "#{ loop = #'int { | =0 => 0 | [~, 1] __integer_subtract__ ^ }, p = @#{ 2000000 loop }, x = ! [p, 30], [x] }", "[[]]", None),
    ("a filter takes its message, the others keep their order", "#{ p = @#{ a = ! [#'int { =42 => Ok }], b = !#'int, c = !#'int, [a, b, c] }, 1 p, 42 p, 2 p, !p }", "[42, 1, 2]", None),
    ("a filter's result is only a verdict", "#{ p = @#{ ! [#'int { =n => [n, 100] __integer_add__ }] }, 5 p, !p }", "5", None),
    ("a nil verdict skips the message, which stays receivable", "#{ p = @#{ a = ! [#'int { | =1 => [] | =n => Ok }], b = !#'int, [a, b] }, 1 p, 2 p, !p }", "[2, 1]", None),
    ("elapsed timeout written before a ready receive", "#{ p = @#{ w = !#'bin, a = ! [0, #'int], b = !#'int, [a, b] }, 5 p, 0xaa p, !p }", "[[], 5]", None),
    ("ready receive written before an elapsed timeout", "#{ p = @#{ w = !#'bin, ! [#'int, 0] }, 5 p, 0xaa p, !p }", "5", None),
    ("two receive sources: written order, not arrival order", "#{ p = @#{ w = ! [#'int { =99 => Ok }], a = ! [#'int, #'bin], b = ! [#'int, #'bin], [a, b] }, 0xaa p, 5 p, 99 p, !p }", "[5, 0xaa]", None),
    ("a receive source takes the earliest message of its type", "#{ p = @#{ w = ! [#'int { =99 => Ok }], a = !#'int, b = !#'int, c = !#'bin, [a, b, c] }, 3 p, 0xaa p, 4 p, 99 p, !p }", "[3, 4, 0xaa]", None),
    ("late arrival behind a skipped message of another type (body-less receiver; the cursor is past the head)", "#{ p = @#{ a = !#'int, b = ! [#'bin, 200], c = ! [#'int, 0], [a, b, c] }, 0x00 p, s = ! [100], 42 p, !p }", "[42, 0x00, []]", None),
    ("late arrival behind a skipped message, with a filtering sibling source", "#{ p = @#{ a = ! [#'bin { =b => [] }, #'int], b = ! [#'bin, 200], c = ! [#'int, 0], [a, b, c] }, 0x00 p, s = ! [100], 42 p, !p }", "[42, 0x00, []]", None),
    ("two late arrivals behind two skipped messages", "#{ p = @#{ a = !#'int, b = !#'int, c = !#'bin, d = !#'bin, [a, b, c, d] }, 0x00 p, 0x01 p, s = ! [100], 42 p, 43 p, !p }", "[42, 43, 0x00, 0x01]", None),
    ("an awaited process finishes while a later source's filter runs: written order decides on re-entry", "#{ loop = #'int { | =0 => 0 | [~, 1] __integer_subtract__ ^ }, child = @#{ 5000 loop, 7 }, 5 ., x = ! [child, #'int { =m => 600000 loop, Ok }], [x] }", "[7]", None),
    ("a message for an earlier filter arrives while a later filter runs: written order decides on re-entry", "#{ loop = #'int { | =0 => 0 | [~, 1] __integer_subtract__ ^ }, p = @#{ ! [#'int { =42 => Ok }, #'int { =m => 600000 loop, Ok }] }, 10 p, s = ! [100], 42 p, !p }", "42", None),
    ("a ready receive written between a pending and an elapsed timeout", "#{ p = @#{ 7 ., 0x00 ., w = !#'bin, ! [5000, #'int, 0] }, !p }", "7", None),
    ("a finished process written between a pending and an elapsed timeout", "#{ f = @#{ 99 }, w = !f, ! [5000, f, 0] }", "99", None),
    ("a message delivered while the awaited processes are being asked for: the earliest message still wins", "#{ never = @#{ !#'bin }, r = @#{ &. =me, 5 me, 0x00 me, w = !#'bin, 7 me, a = ! [never, #'int], b = !#'int, [a, b] }, !r }", "[5, 7]", None),
    ("a filter rejects everything, the timeout decides, the messages stay in order", "#{ p = @#{ w = !#'bin, a = ! [#'int { =n => [] }, 30], b = !#'int, c = !#'int, [a, b, c] }, 1 p, 2 p, 0xaa p, !p }", "[[], 1, 2]", None),
]


# select through the REPL: what needs more than one program merge (name, lines, expected last line)
SELECT_REPL_PROGS = [
    ("a message whose concrete tuple type is first built by a later evaluation is received by an older receiver, in mailbox order",
     ["p = @#{ !#['int, ('int | 'bin)] }, [7, 7] =warm, Ok", "[1, 0x00] p, [2, 2] p, !p"], "[1, 0x00]"),
    ("... also when it is the only message (no timeout may win)",
     ["p = @#{ !#['int, ('int | 'bin)] }", "[1, 0x00] p, ! [p, 300]"], "[1, 0x00]"),
    ("... also through a filter",
     ["p = @#{ ! [#['int, ('int | 'bin)] { =[1, _] => Ok }] }, [7, 7] =warm, Ok", "[1, 0x00] p, [1, 2] p, !p"], "[1, 0x00]"),
]


def check_select_progs(quiv):
    import time

    fails = []
    for name, lines, expect in SELECT_REPL_PROGS:
        r = run_repl(quiv, lines)
        why = None
        if r.get("timeout"):
            why = "timed out (lost wake-up, worker panic or hang)"
        elif r.get("value") != expect:
            why = "the last evaluation printed %r, expected %r" % (r.get("value"), expect)
        if why:
            fails.append({"program": name, "source": " ;; ".join(lines), "why": why})
    for name, src, expect, min_s in SELECT_PROGS:
        t0 = time.time()
        r = run_prog(quiv, src, timeout=30)
        dt = time.time() - t0
        why = None
        if r.get("timeout"):
            why = "timed out (lost wake-up, worker panic or hang)"
        elif r.get("rc") != 0:
            why = "run failed: " + r.get("stderr", "")[-200:]
        elif r.get("value") != expect:
            why = "evaluated to %r, expected %r" % (r.get("value"), expect)
        elif min_s is not None and dt < min_s:
            why = "finished after %.3f s, before the timeout's duration of %.1f s" % (dt, min_s)
        if why:
            fails.append({"program": name, "source": src, "why": why})
    return {"runs": len(SELECT_PROGS) + len(SELECT_REPL_PROGS), "failures": fails}


def run_repl(quiv, lines, timeout=30):
    """Feeds the lines to `quiv repl` on stdin (one evaluation per line); returns the printed lines."""
    try:
        p = subprocess.run([quiv, "repl"], input="\n".join(lines) + "\n", capture_output=True, text=True, timeout=timeout)
    except subprocess.TimeoutExpired as e:
        err = (e.stderr or b"")
        err = err.decode(errors="replace") if isinstance(err, bytes) else err
        return {"timeout": True, "stderr": err[-400:]}
    out = [x.strip() for x in p.stdout.strip().split("\n")]
    return {"rc": p.returncode, "lines": out, "value": out[-1] if out else "", "stderr": p.stderr[-400:]}


# ---- C06 through the REPL: programs that need more than one evaluation (name, lines, expected last line) ----------
HEAP_REPL_PROGS = [
    ("a temporary binary sent as the very last thing of an evaluation, then received and awaited in the next one",
     ["p = @#{ !#'bin }", "[0x0a1b, 0x2c3d] __binary_concat__ p", "!p"], "0x0a1b2c3d"),
    ("the same with a second runtime binary allocated in between",
     ["p = @#{ !#'bin }", "[0x0a1b, 0x2c3d] __binary_concat__ p", "x = [0xffff, 0xeeee] __binary_concat__", "!p"], "0x0a1b2c3d"),
]


def check_heap_repl_progs(quiv):
    fails = []
    for name, lines, expect in HEAP_REPL_PROGS:
        r = run_repl(quiv, lines)
        why = None
        if r.get("timeout"):
            why = "timed out (worker panic or hang)"
        elif r.get("value") != expect:
            why = "the last evaluation printed %r, expected %r" % (r.get("value"), expect)
        if why:
            fails.append({"program": name, "source": " ;; ".join(lines), "why": why})
    return {"runs": len(HEAP_REPL_PROGS), "failures": fails}


# ---- C15: failures are contained and reach the awaiters (name, source, expected value or None, expected error text) ----
_IO_FILE = os.path.join(ROOT, "build", "c15_corpus_input.txt")
FAIL_PROGS = [
    ("an awaited process fails: the awaiter fails with the same error", "#{ p = @#{ [1, 0] __integer_divide__ }, !p }", None, "Division by zero"),
    ("awaiter of an awaiter of a failed process", "#{ a = @#{ [1, 0] __integer_divide__ }, b = @#{ !a }, !b }", None, "Division by zero"),
    ("a process that does not await the failed one runs to its result", "#{ a = @#{ [1, 0] __integer_divide__ }, b = @#{ 7 }, !b }", "7", None),
    ("late await of a process that has already failed", "#{ a = @#{ [1, 0] __integer_divide__ }, s = ! [100], !a }", None, "Division by zero"),
    ("failure inside a receive filter fails the selecting process only", "#{ p = @#{ ! [#'int { =n => [n, 0] __integer_divide__ }] }, q = @#{ 9 }, 5 p, !q }", "9", None),
]


def _effect_failure_progs():
    """The awaiter must sit on the same worker as the failing process; process ids are dealt round-robin over one worker
    per CPU, so the number of filler processes in front decides the placement.  Several counts are tried (on the clean
    tree every one of them must yield the error)."""
    out = []
    for n in sorted({0, 1, 3, 7, 15, max(0, (os.cpu_count() or 1) - 1)}):
        fill = "".join(" f%d = @#{ 0 }," % i for i in range(n))
        out.append(("a process whose effect fails with %d other processes spawned before it: the awaiter gets that error, not a value" % n,
                    "#{" + fill + " reader = @#{ file = [\"" + _IO_FILE + "\" .0, 0, 0] __file_open__, file __file_close__, [file, 0, 1024] __file_read__ }, !reader }",
                    None, "Resource 1 not found"))
    return out


def _await_chain_progs():
    """c fails after b has parked awaiting it and main awaits b; b must share a worker with c for the same-worker path,
    so b is spawned k processes after c for several k (round-robin placement over one worker per CPU)."""
    out = []
    for k in sorted({0, 1, max(0, (os.cpu_count() or 2) - 2), max(0, (os.cpu_count() or 1) - 1)}):
        fill = "".join(" g%d = @#{ 1 }," % i for i in range(k))
        out.append(("a failure reaches the awaiter of an awaiter when the chain was parked before it happened (%d processes between the two)" % k,
                    "#{ c = @#{ !#'int =d => [10, d] __integer_divide__ }," + fill + " b = @#{ !c }, helper = @#{ ! [300] =[], 0 c }, !b }",
                    None, "Division by zero"))
    return out


def check_fail_progs(quiv):
    try:
        with open(_IO_FILE, "w") as fh:
            fh.write("hello\n")
    except OSError:
        pass
    fails = []
    progs = FAIL_PROGS + _effect_failure_progs() + _await_chain_progs()
    for name, src, expect, experr in progs:
        r = run_prog(quiv, src, timeout=30)
        why = None
        if r.get("timeout"):
            why = "timed out (a worker panic or a lost failure notification shows up as a hang)"
        elif expect is not None and (r.get("rc") != 0 or r.get("value") != expect):
            why = "evaluated to %r (rc %s, %s), expected %r" % (r.get("value"), r.get("rc"), r.get("stderr", "")[-120:], expect)
        elif experr is not None and (r.get("rc") == 0 or experr not in r.get("stderr", "")):
            why = "expected the runtime error %r, got rc %s value %r stderr %r" % (experr, r.get("rc"), r.get("value"), r.get("stderr", "")[-160:])
        if why:
            fails.append({"program": name, "source": src, "why": why})
    return {"runs": len(progs), "failures": fails}


# equality through the REPL: shapes registered by different lines (name, lines, expected last line)
EQ_REPL_PROGS = [
    ("a value built through a generic function equals the literal of the same shape - also on a later line",
     ["mk = #<'t>['t, 't] { =[x, y], Cons[x, Cons[y, Nil]] }, a = Cons[1, Cons[2, Nil]], b = [1, 2] mk, b =&a", "b =&a"], "Ok"),
    ("... and the other way round, after an unrelated line",
     ["mk = #<'t>['t, 't] { =[x, y], Cons[x, Cons[y, Nil]] }, a = Cons[1, Cons[2, Nil]], b = [1, 2] mk, b =&a", "7", "a =&b"], "Ok"),
]


def check_eq_progs(quiv):
    fails = []
    for name, lines, expect in EQ_REPL_PROGS:
        r = run_repl(quiv, lines)
        why = None
        if r.get("timeout"):
            why = "timed out (worker panic or hang)"
        elif r.get("value") != expect:
            why = "the last evaluation printed %r, expected %r" % (r.get("value"), expect)
        if why:
            fails.append({"program": name, "source": " ;; ".join(lines), "why": why})
    for name, src, expect in EQ_PROGS:
        r = run_prog(quiv, src, timeout=20)
        why = None
        if r.get("timeout"):
            why = "timed out (worker panic or hang)"
        elif r.get("rc") != 0:
            why = "run failed: " + r.get("stderr", "")[-200:]
        elif r.get("value") != expect:
            why = "evaluated to %r, expected %r" % (r.get("value"), expect)
        if why:
            fails.append({"program": name, "source": src, "why": why})
    return {"runs": len(EQ_PROGS) + len(EQ_REPL_PROGS), "failures": fails}


def check_tail_shapes(quiv, n=40, factor=50):
    fails = []
    runs = 0
    for name, tmpl, expect in TAIL_SHAPES:
        small = run_prog(quiv, tmpl.replace("{N}", str(n)), profile=True, timeout=60)
        large = run_prog(quiv, tmpl.replace("{N}", str(n * factor)), profile=True, timeout=120)
        runs += 2
        why = None
        if small.get("timeout") or large.get("timeout"):
            why = "timed out (a worker panic shows up as a hang)"
        elif small.get("rc") != 0 or large.get("rc") != 0:
            why = "run failed: " + (small.get("stderr") or large.get("stderr") or "")[-200:]
        elif small.get("value") != expect(n) or large.get("value") != expect(n * factor):
            why = "wrong result: %r at N, %r at %dN" % (small.get("value"), large.get("value"), factor)
        elif small.get("peaks") != large.get("peaks"):
            why = "space grows with the iteration count: %s at N=%d, %s at N=%d" % (small.get("peaks"), n, large.get("peaks"), n * factor)
        if why:
            fails.append({"program": name, "source": tmpl, "n": n, "factor": factor, "why": why})
    return {"runs": runs, "shapes": len(TAIL_SHAPES), "failures": fails}


def check_heap_progs(quiv):
    fails = []
    for name, src, expect in HEAP_PROGS:
        r = run_prog(quiv, src, timeout=20)
        why = None
        if r.get("timeout"):
            why = "timed out (worker panic: refcount invariant / use-after-free assertion, or a lost message)"
        elif r.get("rc") != 0:
            why = "run failed: " + r.get("stderr", "")[-200:]
        elif r.get("value") != expect:
            why = "read back %r, expected %r" % (r.get("value"), expect)
        if why:
            fails.append({"program": name, "source": src, "why": why})
    return {"runs": len(HEAP_PROGS), "failures": fails}


def search(prop):
    quiv = build_quiv()
    if prop == "C16":
        return check_tail_shapes(quiv)
    if prop == "C13":
        return check_eq_progs(quiv)
    if prop == "C05":
        return check_select_progs(quiv)
    if prop == "C15":
        # of the heap corpora only crashes count here (a count that drifts is a debug-build worker panic; wrong bytes are C06's)
        hp = [check_heap_progs(quiv), check_heap_repl_progs(quiv)]
        for r in hp:
            r["failures"] = [f for f in r["failures"] if f["why"].startswith("timed out") or f["why"].startswith("run failed")]
        reps = [check_fail_progs(quiv)] + hp
    else:
        reps = [check_heap_progs(quiv), check_heap_repl_progs(quiv)]
    return {"runs": sum(r["runs"] for r in reps), "failures": [f for r in reps for f in r["failures"]]}


_ALL_CACHE = {}


def search_all():
    """Every corpus (heap, equality, select, tail shapes) once per run: used to decorate a violated VM obligation with a
    concrete failing program, when there is one."""
    if "r" not in _ALL_CACHE:
        quiv = build_quiv()
        fails = []
        runs = 0
        for rep in (check_heap_progs(quiv), check_heap_repl_progs(quiv), check_fail_progs(quiv), check_eq_progs(quiv), check_select_progs(quiv), check_tail_shapes(quiv)):
            fails.extend(rep["failures"])
            runs += rep["runs"]
        _ALL_CACHE["r"] = {"runs": runs, "failures": fails}
    return _ALL_CACHE["r"]
