"""Sensitivity self-test (thorough tier, and a developer tool): seeded semantic mutations are applied
to a scratch copy of quiver-core's sources (never to /repo) and the affected unit is re-verified.
A surviving mutant is a contract weakness (or an equivalent mutant), not a violation."""
import json
import os
import shutil
import subprocess
import sys
import tempfile
from concurrent.futures import ThreadPoolExecutor

from . import extract

ROOT = extract.ROOT
MUTANTS = os.path.join(ROOT, "contracts", "mutants.json")


def _worker(scratch, unit):
    """Runs in a subprocess with VERIF_REPO=scratch; prints JSON."""
    from . import runner

    r = runner.run_unit(unit, use_cache=False, tag="_mut%d" % os.getpid())
    out = {
        "infra": r.infra + ["%s undecided: %s" % (oid, ob.get("undecided_reason", "")) for oid, ob in r.obligations.items() if ob["status"] == "undecided"],
        "failed": {
            oid: [{"class": f["class"], "message": f["message"], "expr": f.get("expr", "")[:120]} for f in ob["failures"]]
            for oid, ob in r.obligations.items()
            if ob["status"] not in ("ok",) and ob["failures"]
        },
    }
    try:
        os.remove(r.gen_path)
    except OSError:
        pass
    print("MUTRESULT " + json.dumps(out))


def run_one(m, base_failed):
    scratch = tempfile.mkdtemp(prefix="verif_mut_", dir=os.path.join(ROOT, "build"))
    try:
        for crate in ("quiver-core", "quiver-environment"):
            shutil.copytree(os.path.join(extract.REPO, crate, "src"), os.path.join(scratch, crate, "src"))
        p = os.path.join(scratch, m["file"])
        with open(p) as f:
            s = f.read()
        if s.count(m["old"]) != 1:
            return {"id": m["id"], "status": "stale", "note": "pattern occurs %d times" % s.count(m["old"])}
        s = s.replace(m["old"], m["new"])
        with open(p, "w") as f:
            f.write(s)
        env = dict(os.environ, VERIF_REPO=scratch)
        pr = subprocess.run(
            [sys.executable, "-c", "import sys; sys.path.insert(0, %r); from vf import mutants; mutants._worker(%r, %r)" % (ROOT, scratch, m["unit"])],
            env=env,
            capture_output=True,
            text=True,
            timeout=1800,
        )
        res = None
        for line in pr.stdout.split("\n"):
            if line.startswith("MUTRESULT "):
                res = json.loads(line[10:])
        if res is None:
            return {"id": m["id"], "status": "error", "note": (pr.stderr or pr.stdout)[-300:]}
        new_fail = {}
        for k, v in res["failed"].items():
            nv = [f for f in v if (f["class"], f["expr"]) not in base_failed.get(k, set())]
            if nv:
                new_fail[k] = nv
        if new_fail:
            return {"id": m["id"], "status": "killed", "by": sorted(new_fail.keys()), "first": next(iter(new_fail.values()))[0]}
        if res["infra"]:
            return {"id": m["id"], "status": "undecided", "note": res["infra"][0][:200]}
        return {"id": m["id"], "status": "survived"}
    finally:
        shutil.rmtree(scratch, ignore_errors=True)


def run(units=None, ids=None, jobs=8):
    with open(MUTANTS) as f:
        ms = json.load(f)["mutants"]
    if units is not None:
        ms = [m for m in ms if m["unit"] in units]
    if ids:
        ms = [m for m in ms if m["id"] in ids]
    # obligations that already fail on the unmutated tree (verifier limits) do not count as kills
    from . import runner

    base_failed = {}
    for u in sorted({m["unit"] for m in ms}):
        r = runner.run_unit(u)
        for oid, ob in r.obligations.items():
            if ob["status"] != "ok":
                base_failed[oid] = {(f["class"], f.get("expr", "")[:120]) for f in ob["failures"]}
    with ThreadPoolExecutor(max_workers=jobs) as ex:
        res = list(ex.map(lambda m: run_one(m, base_failed), ms))
    return res


def main(argv):
    units = None
    ids = None
    for a in argv[1:]:
        if a.startswith("--unit="):
            units = a[7:].split(",")
        if a.startswith("--id="):
            ids = a[5:].split(",")
    res = run(units, ids)
    k = sum(1 for r in res if r["status"] == "killed")
    for r in res:
        print("%-40s %-10s %s" % (r["id"], r["status"], r.get("by", r.get("note", ""))))
    print("killed %d / %d" % (k, len(res)))
    return 0


if __name__ == "__main__":
    sys.exit(main(sys.argv))
